#!/bin/sh
# One-off build of every harness binary / sanitizer variant from files on disk (offline).
set -e
cd "$(dirname "$0")"
export CARGO_NET_OFFLINE=true
exec ./check --setup
