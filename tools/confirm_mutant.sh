#!/bin/sh
# usage: tools/confirm_mutant.sh <seeded dir> <crate> [more crates...]
# Confirms in a scratch worktree (/tmp/confirm) that: the patch applies and compiles, the existing
# tests of the given crates still pass with it, the demo fails with it and passes without it.
# Appends the outcome to <seeded dir>/confirm.txt. CONFIRM_FEATURES='--features x' is passed to the demo runs.
d="$(realpath "$1")"; shift
crates="$*"
W=${CONFIRM_W:-/tmp/confirm}
[ -d $W ] || git -C /repo worktree add -q --detach $W HEAD
cd $W && git checkout -q --detach "$(git -C /repo rev-parse HEAD)" && git checkout -- . && git clean -fdq -e target
export CARGO_TARGET_DIR=$W/target CARGO_NET_OFFLINE=true
demo_path="$(cat "$d/demo_path.txt")"
demo_name="$(basename "$demo_path" .rs)"
first="$1"
pk=""; for c in $crates; do pk="$pk -p $c"; done
out="$d/confirm.txt"; : > "$out"
# without the change: demo passes
mkdir -p "$(dirname "$demo_path")"
cp "$d/demo.rs" "$demo_path"
if cargo test --offline -p "$first" $CONFIRM_FEATURES --test "$demo_name" >"$W/log0" 2>&1; then echo "demo_passes_without_change: yes" >>"$out"; else echo "demo_passes_without_change: NO" >>"$out"; tail -5 "$W/log0" >>"$out"; fi
rm -f "$demo_path"
# with the change
if git apply "$d/patch.diff"; then echo "patch_applies: yes" >>"$out"; else echo "patch_applies: NO" >>"$out"; exit 1; fi
if cargo test --offline $pk >"$W/log1" 2>&1; then echo "existing_tests_pass_with_change: yes ($crates)" >>"$out"; else echo "existing_tests_pass_with_change: NO" >>"$out"; grep -E "FAILED|failed|error(\[|:)" "$W/log1" | head -5 >>"$out"; fi
cp "$d/demo.rs" "$demo_path"
if cargo test --offline -p "$first" $CONFIRM_FEATURES --test "$demo_name" >"$W/log2" 2>&1; then echo "demo_fails_with_change: NO (passed)" >>"$out"; else echo "demo_fails_with_change: yes" >>"$out"; fi
rm -f "$demo_path"; git checkout -- .
cat "$out"
