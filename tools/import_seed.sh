#!/bin/sh
# usage: tools/import_seed.sh <ID> [round]   -- copies /tmp/seed3/<ID>/out into seeded/<ID>-<round> and removes the scratch worktree
id="$1"; n="${2:-3}"
src=/tmp/seed3/$id/out; dst=/verif/seeded/$id-$n
[ -f "$src/patch.diff" ] || { echo "no patch for $id"; exit 1; }
mkdir -p "$dst"
cp "$src/patch.diff" "$src/demo.rs" "$src/demo_path.txt" "$src/meta.json" "$dst/" 2>/dev/null
git -C /repo worktree remove --force /tmp/seed3/$id/wt 2>/dev/null
rm -rf /tmp/seed3/$id/target /tmp/seed3/$id/wt
ls "$dst"
