#!/usr/bin/env python3
"""Regenerates /verif/MANIFEST.json from checks_table.py + manifest_text.py."""
import json, os, sys
ROOT = os.path.dirname(os.path.dirname(os.path.abspath(__file__)))
sys.path.insert(0, ROOT)
from checks_table import CHECKS, LEVEL
from manifest_text import TEXT, HOOK_COMMITS, NOT_YET

props = [json.loads(l)["id"] for l in open(os.path.join(ROOT, "properties.jsonl"))]
checks = []
for p in props:
    if p not in CHECKS:
        continue
    t = TEXT[p]
    checks.append({
        "property_id": p,
        "quick_cmd": f"./check {p} --tier quick",
        "thorough_cmd": f"./check {p} --tier thorough",
        "evidence_file": f"/verif/evidence/{p}.json",
        "replay_cmd_template": f"./check {p} --replay {{path}}",
        "engine": ",".join(sorted({e["bin"] for e in CHECKS[p]["engines"]})),
        "level_claimed": {"category": LEVEL[p], "text": t["level"], "design_ref": t.get("design", f"DESIGN.md §4 {p}")},
        "level_note": t["note"],
        "technique": t["technique"],
    })
man = {
    "version": 1,
    "setup_cmd": "./setup.sh",
    "hooks": {
        "guard": "cargo feature `verif-hooks` (off by default) on crates scion-stack and snap-dataplane",
        "enable": "harness crates depend on the repository crates by path with `features = [\"verif-hooks\"]`; ./check builds them with cargo from /repo's working tree",
        "baseline_off_cmd": "cd /repo && cargo nextest run --workspace --no-fail-fast --test-threads 8 --offline || cargo test --workspace --no-fail-fast --offline",
        "source_commits": HOOK_COMMITS,
        "add_only": True,
    },
    "engines": [
        {"name": "vmon", "path": "harness/vmon", "serves_properties": sorted(CHECKS), "kind_free_text": "monitor runtime: seeded PRNG, panic capture, three-valued verdicts, per-engine reports, counting allocator"},
        {"name": "chk-net", "path": "harness/chk-net", "serves_properties": sorted(p for p in CHECKS if any(e["bin"] == "chk-net" for e in CHECKS[p]["engines"])), "kind_free_text": "pocketscion simulator / registry and edge-tun reassembler workloads with reference router, beaconing and provenance oracles"},
        {"name": "chk-snap", "path": "harness/chk-snap", "serves_properties": sorted(p for p in CHECKS if any(e["bin"] == "chk-snap" for e in CHECKS[p]["engines"])), "kind_free_text": "SNAP control plane / tunnel / gateway workloads (token verifier + router, identity registry + tunnel server, ingress filter via verif-hooks)"},
        {"name": "chk-stack", "path": "harness/chk-stack", "serves_properties": sorted(p for p in CHECKS if any(e["bin"] == "chk-stack" for e in CHECKS[p]["engines"])), "kind_free_text": "scion-stack path manager stepped by hand through verif-hooks on a virtual clock (scripted fetcher, generated path pools)"},
        {"name": "chk-codec", "path": "harness/chk-codec", "serves_properties": sorted(p for p in CHECKS if any(e["bin"] == "chk-codec" for e in CHECKS[p]["engines"])), "kind_free_text": "sciparse-only workloads + reference oracles; built natively (release and debug-assert), under Miri and ASan"},
    ],
    "checks": checks,
    "notes": "Runtime monitoring / sanitizers only. ./check <ID> --tier quick|thorough; VERIF_SEED drives every random choice. known_findings.json lists genuine defects recorded rather than repaired.",
    "not_applicable": [{"property_id": p, "reason": NOT_YET.get(p, "check not built yet in this session; see DESIGN.md §4 for the planned monitor")} for p in props if p not in CHECKS],
}
json.dump(man, open(os.path.join(ROOT, "MANIFEST.json"), "w"), indent=1)
print("MANIFEST.json:", len(checks), "checks,", len(man["not_applicable"]), "not_applicable")
