#!/bin/sh
# usage: tools/try_mutant.sh <patch.diff> <PROP> [extra ./check args]
# Applies a seeded change to /repo, runs the check, and always reverts the working tree.
# The evidence file of the property is put back afterwards (evidence describes the unchanged tree);
# the run on the changed tree is kept as /verif/target/mutant-evidence/<PROP>.json.
patch="$(realpath "$1")"; prop="$2"; shift 2
cd /repo || exit 3
if [ -n "$(git status --porcelain --untracked-files=no)" ]; then echo "repo dirty, refusing"; exit 3; fi
git apply "$patch" || { echo "patch does not apply"; exit 3; }
mkdir -p /verif/target/mutant-evidence
[ -f /verif/evidence/$prop.json ] && cp /verif/evidence/$prop.json /verif/target/mutant-evidence/$prop.saved
cd /verif && ./check "$prop" "$@"
rc=$?
git -C /repo checkout -- .
[ -f /verif/evidence/$prop.json ] && cp /verif/evidence/$prop.json /verif/target/mutant-evidence/$prop.json
[ -f /verif/target/mutant-evidence/$prop.saved ] && mv /verif/target/mutant-evidence/$prop.saved /verif/evidence/$prop.json
echo "mutant exit=$rc"
exit $rc
