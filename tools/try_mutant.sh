#!/bin/sh
# usage: tools/try_mutant.sh <patch.diff> <PROP> [extra ./check args]
# Applies a seeded change to /repo, runs the check, and always reverts the working tree.
patch="$(realpath "$1")"; prop="$2"; shift 2
cd /repo || exit 3
if [ -n "$(git status --porcelain --untracked-files=no)" ]; then echo "repo dirty, refusing"; exit 3; fi
git apply "$patch" || { echo "patch does not apply"; exit 3; }
cd /verif && ./check "$prop" "$@"
rc=$?
git -C /repo checkout -- .
echo "mutant exit=$rc"
exit $rc
