#!/usr/bin/env python3
"""Compare a nextest junit.xml with the stable_pass list of /root/.vp/BASELINE.json."""
import json, sys, xml.etree.ElementTree as ET
junit = sys.argv[1] if len(sys.argv) > 1 else "/repo/target/nextest/pb/junit.xml"
stable = set(json.load(open("/root/.vp/BASELINE.json"))["stable_pass"])
passed, failed = set(), set()
for ts in ET.parse(junit).getroot().iter("testsuite"):
    suite = ts.get("name")
    for tc in ts.iter("testcase"):
        name = f"{suite}::{tc.get('name')}"
        bad = any(c.tag in ("failure", "error") for c in tc)
        (failed if bad else passed).add(name)
missing = sorted(stable - passed)
print(f"stable={len(stable)} passed={len(passed)} failed={len(failed)} stable_not_passed={len(missing)}")
for m in missing[:40]:
    print("  NOT PASSED:", m, "(failed)" if m in failed else "(not run?)")
sys.exit(1 if missing else 0)
