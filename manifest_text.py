"""Per-property wording for MANIFEST.json."""
HOOK_COMMITS = []
NOT_YET = {}
TEXT = {
    "C02": {
        "level": "Real view constructors and every pub fn of every view type (the crate's own exec_every_view_function exerciser plus Debug/Display, to_model, try_reverse, advance_*, classification, typed and payload views) are run on structured hostile inputs in exact-size heap allocations under Miri (debug assertions off), ASan, native debug-assert and release builds (valgrind in thorough). Families: 64^3 segment-length triples (stride-sampled in quick, complete in thorough) x pointer/address/truncation variants; the complete cross product of 256 address type/length bytes x 6 path types x 6 header-length modes x 7 truncation points; every truncation of structured UDP/SCMP payloads; random packet-shaped bytes. Size invariants and guard bytes are asserted on each execution. Held on the executions observed; a clean sanitizer run is not a proof of memory safety.",
        "note": "Trusted: Miri/ASan/valgrind as detectors; the crate's view_function_checks list as the enumeration of view functions; reference packet builder (refscion). Byte strings outside the enumerated families are only sampled.",
        "technique": "sanitizers (Miri, ASan, valgrind) + panic capture + size/guard-byte assertions over structured exhaustive input families",
    },
    "C03": {
        "level": "Each of 2x10^5 (quick) / 4x10^6 (thorough) boundary-directed packet specifications is built twice, as sciparse model and as wire image by an independent reference encoder (header, paths, UDP, all SCMP kinds, RFC 1071 checksum over the pseudo header). The real encoder must refuse what the format cannot represent, produce exactly the reference bytes (so header-length, payload-length, UDP-length and checksum are truthful), announce its length, decode back to an equal model, be independent of buffer alignment and previous buffer contents, and re-encode every canonical reference packet identically. Runs natively (release + debug-assert), under ASan and a Miri slice.",
        "note": "Trusted: harness/refscion/src/wire.rs (written from the SCION header and SCMP specifications). Model enum redundancies that alias a named variant on the wire are not generated.",
        "technique": "runtime differential monitor: real encoder/decoder vs independent reference wire codec, representability predicate, alignment and dirty-buffer probes; ASan/Miri on the unsafe encode paths",
    },
    "C11": {
        "level": "(A) every standard path of an exhaustive small-shape family (segment lengths 0..3 each, all curr_inf, 11 (quick) / all 64 (thorough) curr_hf values, 4 flag patterns) under every ingress/egress step sequence of length 3 (quick) / 4 (thorough), with byte snapshots (Err => unchanged), pointer monotonicity, write-set and bounded-router-loop assertions; (B) authentic paths built by a reference MAC chain for every segment shape/direction assignment, walked hop by hop with per-AS keys forward and, after try_reverse, back; (C) every single-bit flip of every authenticated bit (plus sampled double flips) must be rejected no later than at the owning AS. Native, ASan and Miri builds.",
        "note": "Trusted: reference MAC input layout/SegID chaining (refscion/src/mac.rs), AES-CMAC primitive. ValidationFailed is a completed advance by API contract (atomicity applies to Err). Peering segments are outside this family.",
        "technique": "online state-machine monitor (snapshot/monotonicity/write-set assertions) + reference-MAC differential walks + exhaustive single-bit fault injection",
    },
    "C12": {
        "level": "Every standard path in an exhaustive shape/pointer family (segment lengths {0,1,2,3}^3 (quick) / {0,1,2,3,4,62,63}^3 (thorough) x curr_inf 0..3 x curr_hf values incl. out-of-range, with zero-length prefix/middle segments), random larger shapes and one-hop paths is run through reversal (view, model, DpPath, ScionPath), expiry, counts, segment iteration, interface queries, Display/Debug and view<->model conversion, with byte snapshots (Err => bytes/model unchanged), guard bytes, panic capture, and comparison of view result, model result and an independent spec reversal on well-formed paths. Native, ASan, Miri.",
        "note": "Trusted: reference reversal/expiry/wire layout in harness/refscion. Agreement clauses are judged on well-formed paths only (<=64 hop fields, pointers consistent); atomicity and totality on every parseable byte string.",
        "technique": "runtime differential monitor (view vs model vs reference) with before/after snapshots and guard bytes; sanitizer builds of the same workload",
    },
    "C15": {
        "level": "Every string of length <=3 (quick) / <=4 (thorough) over a 24-character structural alphabet, every single-edit mutant of hundreds of generated valid text forms, alternative spellings and a hostile list are fed to the 15 real FromStr implementations with panic capture and compared, accept/reject and value, with an independent reference grammar; 10^4-10^5 boundary-directed values are round-tripped through Display/FromStr. Exploration: held on the strings and values actually run, not a proof over all strings.",
        "note": "Trusted: the reference grammars in harness/chk-codec/src/c15.rs (written from the documented text forms), std's IP and integer parsers (shared by both sides). TXT-record syntax is checked in the scion-stack binary once the verif-hooks re-export exists.",
        "technique": "runtime differential monitor: real parsers vs reference grammar over exhaustive short strings + mutation families, panic capture, round-trip oracle",
    },
}
