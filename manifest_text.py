"""Per-property wording for MANIFEST.json."""
HOOK_COMMITS = []
NOT_YET = {}
TEXT = {
    "C15": {
        "level": "Every string of length <=3 (quick) / <=4 (thorough) over a 24-character structural alphabet, every single-edit mutant of hundreds of generated valid text forms, alternative spellings and a hostile list are fed to the 15 real FromStr implementations with panic capture and compared, accept/reject and value, with an independent reference grammar; 10^4-10^5 boundary-directed values are round-tripped through Display/FromStr. Exploration: held on the strings and values actually run, not a proof over all strings.",
        "note": "Trusted: the reference grammars in harness/chk-codec/src/c15.rs (written from the documented text forms), std's IP and integer parsers (shared by both sides). TXT-record syntax is checked in the scion-stack binary once the verif-hooks re-export exists.",
        "technique": "runtime differential monitor: real parsers vs reference grammar over exhaustive short strings + mutation families, panic capture, round-trip oracle",
    },
}
