//! C16 — path policy languages mean what their specification says.
//!
//! Reference semantics (independent of sciparse's evaluator):
//!  * ACL: first-match per hop, default when none matches, path allowed iff every hop is allowed;
//!  * hop pattern: membership in the regular language denoted by the pattern, decided with
//!    Brzozowski derivatives over the hop sequence (no position-set simulation as in the crate);
//!  * grammar: own lexer/recogniser for the documented pattern syntax.
//! The real code is reached only through its public text/struct API (`AclPolicy::parse`,
//! `AclPolicy::new_from_entries`, `HopPatternPolicy::parse`, `matches`, `Policy::matches`,
//! `PathPolicyHop::hops_from_path`, `HopPredicate` Display/FromStr).

use std::str::FromStr;

use sciparse::{
    dataplane_path::view::ScionDpPathView,
    identifier::{asn::Asn, isd::Isd, isd_asn::IsdAsn},
    path::{
        ScionPath,
        metadata::{PathMetadata, path_interface::PathInterface},
        policy::{
            Policy,
            acl::{AclEntry, AclEntryOperator, AclPolicy},
            hop_pattern::HopPatternPolicy,
            types::{HopPredicate, InterfacesPredicate, PathPolicyHop},
        },
    },
};
use serde_json::json;
use vmon::{Args, Mon, Rng, catch, par_run};

// ---------------------------------------------------------------------------------------------
// reference model

#[derive(Debug, Clone, Copy, PartialEq, Eq, Hash)]
pub struct RPred {
    isd: u16,
    asn: Option<u64>,
    /// 0: any, 1: either(a), 2: both(a,b)
    ifk: u8,
    a: u16,
    b: u16,
}

#[derive(Debug, Clone, Copy, PartialEq, Eq, Hash)]
pub struct RHopP {
    isd: u16,
    asn: u64,
    ingress: u16,
    egress: u16,
}

impl RPred {
    fn matches(&self, h: &RHopP) -> bool {
        let isd_ok = self.isd == 0 || self.isd == h.isd;
        let asn_ok = match self.asn {
            None | Some(0) => true,
            Some(a) => a == h.asn,
        };
        let w = |p: u16, v: u16| p == 0 || p == v;
        let if_ok = match self.ifk {
            0 => true,
            1 => w(self.a, h.ingress) || w(self.a, h.egress),
            _ => w(self.a, h.ingress) && w(self.b, h.egress),
        };
        isd_ok && asn_ok && if_ok
    }
    fn is_wildcard(&self) -> bool {
        self.isd == 0 && matches!(self.asn, None | Some(0)) && (self.ifk == 0 || (self.ifk == 1 && self.a == 0) || (self.ifk == 2 && self.a == 0 && self.b == 0))
    }
    /// documented text form; None when the struct has no text form (interface predicate without
    /// an AS part)
    fn text(&self) -> Option<String> {
        let asn_s = |a: u64| {
            if a <= u32::MAX as u64 { format!("{a}") } else { format!("{:x}:{:x}:{:x}", (a >> 32) & 0xffff, (a >> 16) & 0xffff, a & 0xffff) }
        };
        let mut s = format!("{}", self.isd);
        match (self.asn, self.ifk) {
            (None, 0) => {}
            (None, _) => return None,
            (Some(a), _) => s.push_str(&format!("-{}", asn_s(a))),
        }
        match self.ifk {
            0 => {}
            1 => s.push_str(&format!("#{}", self.a)),
            _ => s.push_str(&format!("#{},{}", self.a, self.b)),
        }
        Some(s)
    }
    fn to_real(&self) -> HopPredicate {
        let ifs = match self.ifk {
            0 => InterfacesPredicate::Any,
            1 => InterfacesPredicate::either(self.a),
            _ => InterfacesPredicate::both(self.a, self.b),
        };
        HopPredicate::new(Isd::new(self.isd), self.asn.map(|a| Asn::new_checked(a).unwrap()), ifs)
    }
}

impl RHopP {
    fn to_real(&self) -> PathPolicyHop {
        PathPolicyHop { isd_asn: IsdAsn::new(Isd::new(self.isd), Asn::new_checked(self.asn).unwrap()), ingress: self.ingress, egress: self.egress }
    }
}

#[derive(Debug, Clone, PartialEq, Eq, Hash)]
pub enum Re {
    Empty,
    Eps,
    Pred(RPred),
    Or(Box<Re>, Box<Re>),
    Opt(Box<Re>),
    Plus(Box<Re>),
    Star(Box<Re>),
    Seq(Vec<Re>),
}

impl Re {
    fn nullable(&self) -> bool {
        match self {
            Re::Empty | Re::Pred(_) => false,
            Re::Eps | Re::Opt(_) | Re::Star(_) => true,
            Re::Or(a, b) => a.nullable() || b.nullable(),
            Re::Plus(a) => a.nullable(),
            Re::Seq(v) => v.iter().all(|x| x.nullable()),
        }
    }
    fn or(a: Re, b: Re) -> Re {
        match (a, b) {
            (Re::Empty, x) | (x, Re::Empty) => x,
            (a, b) if a == b => a,
            (a, b) => Re::Or(Box::new(a), Box::new(b)),
        }
    }
    fn seq2(a: Re, b: Re) -> Re {
        match (a, b) {
            (Re::Empty, _) | (_, Re::Empty) => Re::Empty,
            (Re::Eps, x) | (x, Re::Eps) => x,
            (a, b) => Re::Seq(vec![a, b]),
        }
    }
    /// Brzozowski derivative with respect to one hop
    fn deriv(&self, h: &RHopP) -> Re {
        match self {
            Re::Empty | Re::Eps => Re::Empty,
            Re::Pred(p) => {
                if p.matches(h) { Re::Eps } else { Re::Empty }
            }
            Re::Or(a, b) => Re::or(a.deriv(h), b.deriv(h)),
            Re::Opt(a) => a.deriv(h),
            Re::Star(a) => Re::seq2(a.deriv(h), Re::Star(a.clone())),
            Re::Plus(a) => Re::seq2(a.deriv(h), Re::Star(a.clone())),
            Re::Seq(v) => {
                let mut acc = Re::Empty;
                for i in 0..v.len() {
                    let mut d = v[i].deriv(h);
                    for rest in &v[i + 1..] {
                        d = Re::seq2(d, rest.clone());
                    }
                    acc = Re::or(acc, d);
                    if !v[i].nullable() {
                        break;
                    }
                }
                acc
            }
        }
    }
    fn matches(&self, hops: &[RHopP]) -> bool {
        let mut r = self.clone();
        for h in hops {
            r = r.deriv(h);
            if r == Re::Empty {
                return false;
            }
        }
        r.nullable()
    }
    fn depth(&self) -> usize {
        match self {
            Re::Empty | Re::Eps | Re::Pred(_) => 0,
            Re::Or(a, b) => 1 + a.depth().max(b.depth()),
            Re::Opt(a) | Re::Plus(a) | Re::Star(a) => 1 + a.depth(),
            Re::Seq(v) => v.iter().map(|x| x.depth()).max().unwrap_or(0),
        }
    }
}

/// Printing of one expression (no top-level sequence inside parentheses: the language has
/// sequences at top level only). `style` adds redundant parentheses / whitespace.
fn print_expr(e: &Re, style: u8, top: bool) -> String {
    let sp = if style & 1 == 1 { " " } else { "" };
    let wrap = |s: String| if style & 2 == 2 { format!("({sp}{s}{sp})") } else { s };
    match e {
        Re::Pred(p) => wrap(p.text().expect("predicates in patterns have a text form")),
        Re::Or(a, b) => {
            let inner = format!("{}{sp}|{sp}{}", print_expr(a, style, false), print_expr(b, style, false));
            if top && style & 2 == 0 { inner } else { format!("({inner})") }
        }
        Re::Opt(a) => format!("{}{sp}?", print_operand(a, style)),
        Re::Plus(a) => format!("{}{sp}+", print_operand(a, style)),
        Re::Star(a) => format!("{}{sp}*", print_operand(a, style)),
        _ => unreachable!("not printable as a single expression"),
    }
}
fn print_operand(a: &Re, style: u8) -> String {
    match a {
        Re::Or(..) => print_expr(a, style | 4, false),
        _ => print_expr(a, style, false),
    }
}
fn print_pattern(seq: &[Re], style: u8) -> String {
    let sep = if style & 8 == 8 { "  \t" } else { " " };
    // an Or at top level is followed by another expression: "a | b c" parses as (a|b) c, which is
    // what we mean, so no parentheses are required
    seq.iter().map(|e| print_expr(e, style, true)).collect::<Vec<_>>().join(sep)
}

// reference recogniser for the documented grammar --------------------------------------------

#[derive(Debug, Clone, PartialEq)]
enum Tok {
    Pred(String),
    Bang,
    And,
    Or,
    L,
    R,
    Q,
    Plus,
    Star,
}

fn ref_lex(s: &str) -> Vec<Tok> {
    let mut out = vec![];
    let mut cur = String::new();
    let flush = |cur: &mut String, out: &mut Vec<Tok>| {
        if !cur.is_empty() {
            out.push(Tok::Pred(std::mem::take(cur)));
        }
    };
    for c in s.chars() {
        let t = match c {
            '!' => Some(Tok::Bang),
            '&' => Some(Tok::And),
            '|' => Some(Tok::Or),
            '(' => Some(Tok::L),
            ')' => Some(Tok::R),
            '?' => Some(Tok::Q),
            '+' => Some(Tok::Plus),
            '*' => Some(Tok::Star),
            _ => None,
        };
        if let Some(t) = t {
            flush(&mut cur, &mut out);
            out.push(t);
        } else if c.is_whitespace() {
            flush(&mut cur, &mut out);
        } else {
            cur.push(c);
        }
    }
    flush(&mut cur, &mut out);
    out
}

/// reference text → predicate (documented forms "1", "1-2", "1-2#3", "1-2#3,4")
fn ref_pred(s: &str) -> Option<RPred> {
    let u16p = |x: &str| -> Option<u16> {
        let b = x.strip_prefix('+').unwrap_or(x);
        if b.is_empty() || !b.chars().all(|c| c.is_ascii_digit()) {
            return None;
        }
        b.trim_start_matches('0').parse::<u32>().ok().or(if b.chars().all(|c| c == '0') { Some(0) } else { None }).filter(|v| *v <= 65535).map(|v| v as u16)
    };
    let (isd_s, rest) = match s.split_once('-') {
        Some((a, b)) => (a, Some(b)),
        None => (s, None),
    };
    let isd = u16p(isd_s)?;
    let Some(rest) = rest else { return Some(RPred { isd, asn: None, ifk: 0, a: 0, b: 0 }) };
    let (asn_s, ifs) = match rest.split_once('#') {
        Some((a, b)) => (a, Some(b)),
        None => (rest, None),
    };
    let asn = Asn::from_str(asn_s).ok()?.to_u64(); // AS text grammar is C15's subject; trusted here
    let Some(ifs) = ifs else { return Some(RPred { isd, asn: Some(asn), ifk: 0, a: 0, b: 0 }) };
    match ifs.split_once(',') {
        None => Some(RPred { isd, asn: Some(asn), ifk: 1, a: u16p(ifs)?, b: 0 }),
        Some((a, b)) => Some(RPred { isd, asn: Some(asn), ifk: 2, a: u16p(a)?, b: u16p(b)? }),
    }
}

struct P<'a> {
    t: &'a [Tok],
    i: usize,
}
impl P<'_> {
    fn atom(&mut self) -> Option<Re> {
        match self.t.get(self.i)? {
            Tok::Pred(s) => {
                self.i += 1;
                Some(Re::Pred(ref_pred(s)?))
            }
            Tok::L => {
                self.i += 1;
                let e = self.expr()?;
                if self.t.get(self.i) == Some(&Tok::R) {
                    self.i += 1;
                    Some(e)
                } else {
                    None
                }
            }
            _ => None,
        }
    }
    fn unary(&mut self) -> Option<Re> {
        let mut e = self.atom()?;
        loop {
            match self.t.get(self.i) {
                Some(Tok::Q) => e = Re::Opt(Box::new(e)),
                Some(Tok::Plus) => e = Re::Plus(Box::new(e)),
                Some(Tok::Star) => e = Re::Star(Box::new(e)),
                _ => return Some(e),
            }
            self.i += 1;
        }
    }
    fn expr(&mut self) -> Option<Re> {
        let mut e = self.unary()?;
        while self.t.get(self.i) == Some(&Tok::Or) {
            self.i += 1;
            let r = self.unary()?;
            e = Re::Or(Box::new(e), Box::new(r));
        }
        Some(e)
    }
}

/// None = not in the documented language
fn ref_parse(s: &str) -> Option<Re> {
    let toks = ref_lex(s);
    let mut p = P { t: &toks, i: 0 };
    let mut seq = vec![];
    while p.i < toks.len() {
        seq.push(p.expr()?);
    }
    Some(Re::Seq(seq))
}

// ---------------------------------------------------------------------------------------------

const A110: u64 = 0xff00_0000_0110;
const A111: u64 = 0xff00_0000_0111;

fn pred_alphabet() -> Vec<RPred> {
    vec![
        RPred { isd: 0, asn: None, ifk: 0, a: 0, b: 0 },           // 0  (wildcard)
        RPred { isd: 1, asn: None, ifk: 0, a: 0, b: 0 },           // 1
        RPred { isd: 1, asn: Some(A110), ifk: 0, a: 0, b: 0 },     // 1-ff00:0:110
        RPred { isd: 0, asn: Some(A111), ifk: 1, a: 2, b: 0 },     // 0-ff00:0:111#2
        RPred { isd: 1, asn: Some(0), ifk: 2, a: 1, b: 0 },        // 1-0#1,0
        RPred { isd: 2, asn: Some(5), ifk: 2, a: 0, b: 3 },        // 2-5#0,3
    ]
}

fn hop_alphabet() -> Vec<RHopP> {
    vec![
        RHopP { isd: 1, asn: A110, ingress: 0, egress: 1 },
        RHopP { isd: 1, asn: A110, ingress: 1, egress: 2 },
        RHopP { isd: 1, asn: A111, ingress: 2, egress: 1 },
        RHopP { isd: 1, asn: A111, ingress: 3, egress: 0 },
        RHopP { isd: 2, asn: 5, ingress: 1, egress: 3 },
        RHopP { isd: 2, asn: 5, ingress: 3, egress: 0 },
        RHopP { isd: 2, asn: A110, ingress: 2, egress: 2 },
        RHopP { isd: 3, asn: 7, ingress: 9, egress: 1 },
    ]
}

fn nth_seq(mut idx: u64, len: usize, n: usize) -> Vec<usize> {
    (0..len)
        .map(|_| {
            let d = (idx % n as u64) as usize;
            idx /= n as u64;
            d
        })
        .collect()
}

fn all_seqs(max_len: usize, n: usize) -> Vec<Vec<usize>> {
    let mut v = vec![];
    for len in 0..=max_len {
        for i in 0..(n as u64).pow(len as u32) {
            v.push(nth_seq(i, len, n));
        }
    }
    v
}

fn acl_ref(entries: &[(bool, RPred)], default_allow: bool, hops: &[RHopP]) -> bool {
    hops.iter().all(|h| entries.iter().find(|(_, p)| p.matches(h)).map(|(allow, _)| *allow).unwrap_or(default_allow))
}

fn acl_text(entries: &[(bool, RPred)], default_allow: bool) -> Option<String> {
    let mut s = String::new();
    for (allow, p) in entries {
        s.push_str(if *allow { "+ " } else { "- " });
        s.push_str(&p.text()?);
        s.push(' ');
    }
    s.push_str(if default_allow { "+" } else { "-" });
    Some(s)
}

fn check_acl(entries: &[(bool, RPred)], default_allow: bool, seqs: &[Vec<usize>], hops: &[RHopP], mon: &mut Mon) {
    let op = |a: bool| if a { AclEntryOperator::Allow } else { AclEntryOperator::Deny };
    let built = AclPolicy::new_from_entries(op(default_allow), entries.iter().map(|(a, p)| AclEntry::new(op(*a), p.to_real())));
    // textual form: an entry whose predicate is a full wildcard terminates the list in the text
    // syntax (it *is* the default), so only wildcard-free entry lists have an equivalent text
    let text = if entries.iter().any(|(_, p)| p.is_wildcard()) { None } else { acl_text(entries, default_allow) };
    let parsed = text.as_ref().map(|t| catch(|| AclPolicy::parse(t)));
    let desc = || json!({"kind": "acl", "entries": entries.iter().map(|(a, p)| format!("{}{}", if *a {'+'} else {'-'}, p.text().unwrap_or_else(|| format!("{p:?}")))).collect::<Vec<_>>(), "default_allow": default_allow, "text": text});
    let parsed = match parsed {
        None => None,
        Some(Err(pn)) => {
            mon.violation(format!("panic:AclPolicy::parse:{}", pn.site()), pn.0, desc());
            None
        }
        Some(Ok(Err(e))) => {
            mon.violation("acl-text-rejected", format!("AclPolicy::parse({:?}) failed: {e}", text), desc());
            None
        }
        Some(Ok(Ok(p))) => {
            if p != built {
                mon.violation("acl-parse-differs-from-struct", format!("parse({:?}) = {p:?}, expected {built:?}", text), desc());
            }
            Some(p)
        }
    };
    let _ = parsed;
    for sq in seqs {
        mon.eval();
        let rh: Vec<RHopP> = sq.iter().map(|i| hops[*i]).collect();
        let real_h: Vec<PathPolicyHop> = rh.iter().map(|h| h.to_real()).collect();
        let want = acl_ref(entries, default_allow, &rh);
        match catch(|| built.matches(&real_h)) {
            Err(pn) => {
                mon.violation(format!("panic:AclPolicy::matches:{}", pn.site()), pn.0, desc());
                return;
            }
            Ok(got) => {
                if got != want {
                    let sig = if rh.is_empty() { "acl-empty-hop-sequence-uses-default".to_string() } else { "acl-decision-differs".to_string() };
                    let mut d = desc();
                    d["hops"] = json!(sq);
                    mon.violation(sig, format!("AclPolicy::matches = {got}, first-match reference = {want} on hop sequence {sq:?}"), d);
                }
            }
        }
    }
    mon.count("acls");
    mon.shape(&("acl", entries.len(), default_allow, entries.iter().map(|e| e.0).collect::<Vec<_>>()));
}

fn check_pattern(seq: &[Re], seqs: &[Vec<usize>], hops: &[RHopP], styles: &[u8], mon: &mut Mon) {
    let reference = Re::Seq(seq.to_vec());
    let canonical = print_pattern(seq, 0);
    let desc = |t: &str| json!({"kind": "pattern", "text": t, "canonical": canonical});
    // the reference's own reading of the canonical text must be the AST we generated (self-check
    // of printer + reference parser; a failure here is a harness bug, not a finding)
    match ref_parse(&canonical) {
        Some(r) if r == reference => {}
        other => {
            mon.inconclusive(format!("harness: reference parser disagrees with printer on {canonical:?}: {other:?}"));
            return;
        }
    }
    let mut policies: Vec<(String, HopPatternPolicy)> = vec![];
    for st in styles {
        let text = print_pattern(seq, *st);
        match catch(|| HopPatternPolicy::parse(&text)) {
            Err(pn) => {
                mon.violation(format!("panic:HopPatternPolicy::parse:{}", pn.site()), pn.0, desc(&text));
                return;
            }
            Ok(Err(e)) => {
                mon.violation("pattern-text-rejected", format!("documented syntax rejected: {text:?}: {}", e.message), desc(&text));
                return;
            }
            Ok(Ok(p)) => policies.push((text, p)),
        }
    }
    mon.count("patterns");
    mon.shape(&("pat", seq.len(), reference.depth(), format!("{:?}", seq.iter().map(kind).collect::<Vec<_>>())));
    for sq in seqs {
        let rh: Vec<RHopP> = sq.iter().map(|i| hops[*i]).collect();
        let real_h: Vec<PathPolicyHop> = rh.iter().map(|h| h.to_real()).collect();
        let want = reference.matches(&rh);
        for (text, pol) in &policies {
            mon.eval();
            match catch(|| pol.matches(&real_h)) {
                Err(pn) => {
                    mon.violation(format!("panic:HopPatternPolicy::matches:{}", pn.site()), pn.0, desc(text));
                    return;
                }
                Ok(got) => {
                    if got != want {
                        let mut d = desc(text);
                        d["hops"] = json!(sq);
                        let sig = if *text == canonical { "pattern-language-differs" } else { "pattern-meaning-changed-by-parens-or-whitespace" };
                        mon.violation(sig, format!("{text:?} matches {sq:?}: real {got}, regular-language reference {want}"), d);
                        return;
                    }
                    if want {
                        mon.count("pattern_accepts");
                    }
                }
            }
        }
    }
}

fn kind(e: &Re) -> &'static str {
    match e {
        Re::Pred(_) => "p",
        Re::Or(..) => "or",
        Re::Opt(_) => "opt",
        Re::Plus(_) => "plus",
        Re::Star(_) => "star",
        _ => "x",
    }
}

/// all single expressions of nesting depth ≤ d over predicate indices `ps`
fn exprs(d: usize, ps: &[RPred]) -> Vec<Re> {
    let atoms: Vec<Re> = ps.iter().map(|p| Re::Pred(*p)).collect();
    if d == 0 {
        return atoms;
    }
    let lower = exprs(d - 1, ps);
    let mut v = lower.clone();
    for e in &lower {
        v.push(Re::Opt(Box::new(e.clone())));
        v.push(Re::Plus(Box::new(e.clone())));
        v.push(Re::Star(Box::new(e.clone())));
    }
    for a in &lower {
        for b in &lower {
            v.push(Re::Or(Box::new(a.clone()), Box::new(b.clone())));
        }
    }
    v.sort_by_key(|e| format!("{e:?}"));
    v.dedup();
    v
}

fn rand_expr(r: &mut Rng, d: usize, ps: &[RPred]) -> Re {
    if d == 0 || r.chance(1, 4) {
        return Re::Pred(*r.pick(ps));
    }
    match r.below(4) {
        0 => Re::Opt(Box::new(rand_expr(r, d - 1, ps))),
        1 => Re::Plus(Box::new(rand_expr(r, d - 1, ps))),
        2 => Re::Star(Box::new(rand_expr(r, d - 1, ps))),
        _ => Re::Or(Box::new(rand_expr(r, d - 1, ps)), Box::new(rand_expr(r, d - 1, ps))),
    }
}

pub fn run(args: &Args, mon: &mut Mon) -> (String, Vec<&'static str>) {
    mon.floor("acls", 100);
    mon.floor("patterns", 100);
    mon.floor("pattern_accepts", 100);
    mon.floor("parser_strings", 1000);
    mon.floor("predicate_roundtrips", 50);
    let thorough = args.thorough();
    let miri = cfg!(miri);
    let scale = args.param_u64("scale", 1);
    let preds = pred_alphabet();
    let hops = hop_alphabet();

    // ---- predicates: Display/FromStr survive, semantic equals the reference on every hop
    {
        let mut all: Vec<RPred> = preds.clone();
        for isd in [0u16, 1, 65535] {
            for asn in [None, Some(0u64), Some(5), Some(u32::MAX as u64), Some(u32::MAX as u64 + 1), Some(A110)] {
                for (ifk, a, b) in [(0u8, 0u16, 0u16), (1, 0, 0), (1, 7, 0), (2, 0, 0), (2, 7, 0), (2, 0, 9), (2, 65535, 1)] {
                    all.push(RPred { isd, asn, ifk, a, b });
                }
            }
        }
        for p in &all {
            mon.eval();
            mon.count("predicate_roundtrips");
            let real = p.to_real();
            let shown = real.to_string();
            let back = catch(|| HopPredicate::from_str(&shown));
            let d = json!({"kind": "predicate", "predicate": format!("{p:?}"), "displayed": shown});
            match back {
                Err(pn) => mon.violation(format!("panic:HopPredicate::from_str:{}", pn.site()), pn.0, d),
                Ok(Ok(b)) if b == real => {}
                Ok(other) => {
                    let sig = if p.asn.is_none() && p.ifk != 0 { "predicate-roundtrip:interfaces-without-as".to_string() } else { "predicate-roundtrip".to_string() };
                    mon.violation(sig, format!("HopPredicate {real:?} prints as {shown:?} which re-parses to {other:?}"), d);
                }
            }
            for h in &hops {
                let rh = h.to_real();
                if rh.matches(&real) != p.matches(h) {
                    mon.violation("predicate-semantics-differs", format!("{real:?} on {rh:?}: real {}, reference {}", rh.matches(&real), p.matches(h)), json!({"kind": "predicate", "predicate": format!("{p:?}"), "hop": format!("{h:?}")}));
                }
            }
            if let Some(t) = p.text() {
                match catch(|| HopPredicate::from_str(&t)) {
                    Ok(Ok(b)) if b == real => {}
                    other => mon.violation("predicate-text-form", format!("documented form {t:?} of {real:?} parses to {other:?}"), json!({"kind": "predicate", "text": t})),
                }
            }
        }
    }

    // ---- ACLs: exhaustive up to 3 entries over the predicate alphabet × operators × defaults
    let seq_len = if miri { 2 } else if thorough { 5 } else { 4 };
    let seqs = all_seqs(seq_len, hops.len());
    let entry_alpha: Vec<(bool, RPred)> = preds.iter().flat_map(|p| [(true, *p), (false, *p)]).collect();
    let max_entries = if miri { 1 } else { 3 };
    let mut acls: Vec<(Vec<(bool, RPred)>, bool)> = vec![];
    for n in 0..=max_entries {
        for i in 0..(entry_alpha.len() as u64).pow(n as u32) {
            let es: Vec<(bool, RPred)> = nth_seq(i, n, entry_alpha.len()).into_iter().map(|k| entry_alpha[k]).collect();
            acls.push((es.clone(), true));
            acls.push((es, false));
        }
    }
    let n_acl = acls.len() as u64;
    let acl_seqs: Vec<Vec<usize>> = if thorough { seqs.clone() } else { all_seqs(seq_len.min(3), hops.len()) };
    par_run(mon, args.threads, n_acl, |i, m| {
        if !args.mine(i) {
            return;
        }
        let (es, d) = &acls[i as usize];
        check_acl(es, *d, &acl_seqs, &hops, m);
    });

    // ---- hop patterns
    let styles: Vec<u8> = vec![0, 1, 2, 3, 8, 11];
    let small_ps = [preds[1], preds[2], preds[3]];
    let mut pats: Vec<Vec<Re>> = vec![];
    let d1 = exprs(1, &small_ps);
    let d2 = exprs(if miri { 1 } else { 2 }, &small_ps);
    for e in &d2 {
        pats.push(vec![e.clone()]);
    }
    for a in &d1 {
        for b in &d1 {
            pats.push(vec![a.clone(), b.clone()]);
        }
    }
    let d0u = exprs(0, &[preds[0], preds[1], preds[4], preds[5]]);
    let mut unary: Vec<Re> = d0u.clone();
    for e in &d0u {
        unary.push(Re::Star(Box::new(e.clone())));
        unary.push(Re::Plus(Box::new(e.clone())));
    }
    if !miri {
        for a in &unary {
            for b in &unary {
                for c in &unary {
                    pats.push(vec![a.clone(), b.clone(), c.clone()]);
                }
            }
        }
    }
    pats.push(vec![]); // the empty pattern
    let n_exh = pats.len() as u64;
    let pat_stride = if miri { 23 } else { 1 };
    par_run(mon, args.threads, n_exh, |i, m| {
        if !args.mine(i) || i % pat_stride != args.seed % pat_stride {
            return;
        }
        check_pattern(&pats[i as usize], &seqs, &hops, &styles, m);
    });
    // random deeper patterns (depth 3, longer sequences), hop sequences up to 6 sampled
    let n_rand = if miri { 3 } else if thorough { 20_000 * scale } else { 1_500 * scale };
    let long_seqs: Vec<Vec<usize>> = {
        let mut r = Rng::fork(args.seed, 0x16);
        let mut v = seqs.clone();
        for _ in 0..(if miri { 10 } else { 3000 }) {
            let len = r.range(5, 6) as usize;
            v.push((0..len).map(|_| r.usize(hops.len())).collect());
        }
        v
    };
    par_run(mon, args.threads, n_rand, |i, m| {
        if !args.mine(i) {
            return;
        }
        let mut r = Rng::fork(args.seed, 0x1600_0000 + i);
        let n = r.range(1, 4) as usize;
        let seq: Vec<Re> = (0..n).map(|_| rand_expr(&mut r, 3, &preds)).collect();
        check_pattern(&seq, &long_seqs, &hops, &[0, 3], m);
    });

    // ---- parser: every token string up to a length bound; accept/reject must equal the
    //      reference recogniser, and accepted strings must denote the same language
    let toks = ["1", "2-5", "|", "(", ")", "?", "+", "*", " ", "!", "&", "1-ff00:0:110#1,2", "x"];
    let max_t = if miri { 2 } else if thorough { 6 } else { 5 };
    let probe_seqs = all_seqs(3, hops.len());
    for len in 0..=max_t {
        let n = (toks.len() as u64).pow(len as u32);
        par_run(mon, args.threads, n, |i, m| {
            if !args.mine(i) {
                return;
            }
            let s: String = nth_seq(i, len, toks.len()).into_iter().map(|k| toks[k]).collect();
            m.eval();
            m.count("parser_strings");
            let want = ref_parse(&s);
            match catch(|| HopPatternPolicy::parse(&s)) {
                Err(pn) => m.violation(format!("panic:HopPatternPolicy::parse:{}", pn.site()), pn.0, json!({"kind": "parser", "text": s})),
                Ok(got) => match (got, want) {
                    (Err(_), None) => {}
                    (Ok(_), None) => m.violation("parser-accepts-undocumented", format!("{s:?} is not in the documented pattern language but parses"), json!({"kind": "parser", "text": s})),
                    (Err(e), Some(_)) => m.violation("parser-rejects-documented", format!("{s:?} rejected: {}", e.message), json!({"kind": "parser", "text": s})),
                    (Ok(p), Some(re)) => {
                        m.count("parser_accepts");
                        m.shape(&("parse-ok", ref_lex(&s).len(), re.depth()));
                        // sample the language on short hop sequences
                        if i % 7 == 0 {
                            for sq in &probe_seqs {
                                let rh: Vec<RHopP> = sq.iter().map(|k| hops[*k]).collect();
                                let real_h: Vec<PathPolicyHop> = rh.iter().map(|h| h.to_real()).collect();
                                if let Ok(g) = catch(|| p.matches(&real_h)) {
                                    if g != re.matches(&rh) {
                                        m.violation("pattern-language-differs", format!("{s:?} on {sq:?}: real {g}"), json!({"kind": "parser", "text": s, "hops": sq}));
                                        break;
                                    }
                                }
                            }
                        }
                    }
                },
            }
            // error reporting must not panic either
            if let Ok(Err(e)) = catch(|| HopPatternPolicy::parse(&s)) {
                if let Err(pn) = catch(|| e.report(&s)) {
                    m.violation(format!("panic:ParseError::report:{}", pn.site()), pn.0, json!({"kind": "parser", "text": s}));
                }
            }
        });
    }
    // ACL text parser on token strings
    {
        let toks = ["+", "-", "1", "0", "1-5#1", " ", "  ", "x", "+1"];
        let max_t = if miri { 2 } else { 5 };
        for len in 0..=max_t {
            let n = (toks.len() as u64).pow(len as u32);
            par_run(mon, args.threads, n, |i, m| {
                if !args.mine(i) {
                    return;
                }
                let s: String = nth_seq(i, len, toks.len()).into_iter().map(|k| toks[k]).collect::<Vec<_>>().join(" ");
                m.eval();
                if let Err(pn) = catch(|| AclPolicy::parse(&s).map(|a| a.matches(&[]))) {
                    m.violation(format!("panic:AclPolicy::parse:{}", pn.site()), pn.0, json!({"kind": "acl-parser", "text": s}));
                }
            });
        }
    }

    // ---- Policy (ACL ∧ pattern) and hop extraction from path metadata
    {
        let mut r = Rng::fork(args.seed, 0x1616);
        for _ in 0..(if miri { 5 } else { 2000 }) {
            mon.eval();
            let n_as = r.range(2, 6) as usize;
            let ases: Vec<RHopP> = (0..n_as).map(|_| *r.pick(&hops)).collect();
            // interface list: egress of first, (ingress, egress) of transit, ingress of last
            let mut ifs: Vec<PathInterface> = vec![];
            let mut want: Vec<RHopP> = vec![];
            for (k, a) in ases.iter().enumerate() {
                let ia = IsdAsn::new(Isd::new(a.isd), Asn::new_checked(a.asn).unwrap());
                let ing = if k == 0 { 0 } else { r.range(1, 9) as u16 };
                let eg = if k == n_as - 1 { 0 } else { r.range(1, 9) as u16 };
                if k > 0 {
                    ifs.push(PathInterface::new(ia, ing));
                }
                if k < n_as - 1 {
                    ifs.push(PathInterface::new(ia, eg));
                }
                want.push(RHopP { isd: a.isd, asn: a.asn, ingress: ing, egress: eg });
            }
            let src = ifs.first().unwrap().isd_asn;
            let dst = ifs.last().unwrap().isd_asn;
            let md = PathMetadata::new_minimal(2_000_000_000, 1400, ifs);
            let path = ScionPath::new(src, dst, ScionDpPathView::Empty, Some(md), None);
            let got = catch(|| PathPolicyHop::hops_from_path(&path));
            let wreal: Vec<PathPolicyHop> = want.iter().map(|h| h.to_real()).collect();
            match got {
                Ok(Ok(g)) if g == wreal => mon.count("hop_extractions"),
                other => mon.violation("hops_from_path-differs", format!("{other:?} expected {wreal:?}"), json!({"kind": "hops_from_path"})),
            }
            // combined policy = conjunction
            let es = vec![(r.bool(), *r.pick(&preds))];
            let dflt = r.bool();
            let seq: Vec<Re> = (0..r.range(1, 3)).map(|_| rand_expr(&mut r, 2, &preds)).collect();
            let op = |a: bool| if a { AclEntryOperator::Allow } else { AclEntryOperator::Deny };
            let acl = AclPolicy::new_from_entries(op(dflt), es.iter().map(|(a, p)| AclEntry::new(op(*a), p.to_real())));
            if let Ok(Ok(hp)) = catch(|| HopPatternPolicy::parse(&print_pattern(&seq, 0))) {
                let pol = Policy::new(Some(acl), Some(hp));
                let expect = acl_ref(&es, dflt, &want) && Re::Seq(seq.clone()).matches(&want);
                match catch(|| pol.matches(&wreal)) {
                    Ok(g) if g == expect => {}
                    other => mon.violation("policy-conjunction-differs", format!("{other:?} expected {expect}"), json!({"kind": "policy", "pattern": print_pattern(&seq, 0)})),
                }
            }
        }
    }

    mon.sample_labeled("acl", || json!({"kind": "acl", "text": "- 1-ff00:0:110 + 0-ff00:0:111#2 -", "hops": [0, 2, 3]}));
    mon.sample_labeled("pattern", || json!({"kind": "pattern", "text": print_pattern(&pats[pats.len() / 2], 3), "hop_sequences": seqs.len()}));
    mon.note("families", json!({"acls": n_acl, "acl_hop_sequences": acl_seqs.len(), "patterns_exhaustive": n_exh, "pattern_hop_sequences": seqs.len(), "patterns_random_depth3": n_rand, "parser_token_strings_up_to": max_t, "print_styles": styles.len()}));

    (
        format!(
            "ACLs: all {n_acl} ACLs of <= {max_entries} entries over 6 predicates x 2 operators x 2 defaults, each on all hop sequences of length <= {} over 8 hops; patterns: {n_exh} patterns (all single expressions of nesting depth <= 2 over 3 predicates, all pairs of depth <= 1, all triples of atom/star/plus over 4 predicates) each printed in {} styles (redundant parentheses / whitespace) on all hop sequences of length <= {seq_len}; {n_rand} random depth-3 patterns on sequences up to length 6; every token string of <= {max_t} tokens through the pattern parser and <= 5 tokens through the ACL parser; predicate Display/FromStr; Policy conjunction; hop extraction from path metadata. distinct = distinct ACL shapes / pattern operator structures / parse outcomes.",
            acl_seqs.iter().map(|s| s.len()).max().unwrap_or(0),
            styles.len()
        ),
        vec![
            "reference: first-match ACL evaluator, Brzozowski-derivative matcher and recogniser for the documented grammar (| binds tighter than juxtaposition; sequences only at top level), in harness/chk-codec/src/c16.rs",
            "AS-number text inside predicates uses sciparse's Asn parser (C15's subject)",
        ],
    )
}
