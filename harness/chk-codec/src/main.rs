//! Checks whose code under test is `sciparse` only (no FFI ⇒ also runnable under Miri/ASan).
use vmon::{Args, Mon};

mod c02;
mod c03;
mod c04;
mod c11;
mod c12;
mod c15;
mod c16;
mod c18;
mod c19;

fn main() {
    let args = Args::parse();
    let mut mon = Mon::new();
    let (rule, assumptions): (String, Vec<&'static str>) = match args.prop.as_str() {
        "C02" => c02::run(&args, &mut mon),
        "C03" => c03::run(&args, &mut mon),
        "C04" => c04::run(&args, &mut mon),
        "C11" => c11::run(&args, &mut mon),
        "C12" => c12::run(&args, &mut mon),
        "C15" => c15::run(&args, &mut mon),
        "C16" => c16::run(&args, &mut mon),
        "C18" => c18::run(&args, &mut mon),
        "C19" => c19::run(&args, &mut mon),
        other => panic!("chk-codec does not implement {other}"),
    };
    let code = mon.finish(&args, &rule, &assumptions);
    std::process::exit(code);
}
