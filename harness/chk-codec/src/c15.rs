//! C15 — address and identifier text forms round-trip, reject the rest, never panic.
//!
//! Oracle: reference grammars written from the documented text forms (independent of the crate's
//! parsers; only `std`'s IP and integer grammars are shared and trusted). For every string and
//! every address type: real parser must not panic, must accept exactly what the reference accepts
//! and yield the same value. For every generated value: parse(display(v)) == v, also through the
//! serde string form.

use std::{
    fmt::{Debug, Display},
    net::{IpAddr, Ipv4Addr, Ipv6Addr},
    str::FromStr,
};

use sciparse::{
    address::{
        addr::{ScionAddr, ScionAddrSvc, ScionAddrV4, ScionAddrV6},
        host_addr::{ScionHostAddr, ServiceAddr},
        ip_addr::ScionIpAddr,
        ip_socket_addr::ScionSocketIpAddr,
        socket_addr::{ScionSocketAddr, ScionSocketAddrSvc, ScionSocketAddrV4, ScionSocketAddrV6},
    },
    identifier::{asn::Asn, isd::Isd, isd_asn::IsdAsn},
};
use serde_json::json;
use vmon::{Args, Mon, Rng, catch, par_run};

// ------------------------------------------------------------------------------------------
// Reference grammars

/// decimal unsigned as `std` integer parsing accepts it: optional '+', ≥1 ASCII digit.
/// Returns None on syntax error, Some(None) on overflow of u128 (treated as "too large").
fn ref_digits(s: &str, radix: u32) -> Option<Option<u128>> {
    let body = s.strip_prefix('+').unwrap_or(s);
    if body.is_empty() {
        return None;
    }
    let mut v: Option<u128> = Some(0);
    for c in body.chars() {
        let d = c.to_digit(radix)?;
        v = v
            .and_then(|x| x.checked_mul(radix as u128))
            .and_then(|x| x.checked_add(d as u128));
    }
    Some(v)
}

fn ref_u16(s: &str) -> Option<u16> {
    match ref_digits(s, 10)? {
        Some(v) if v <= u16::MAX as u128 => Some(v as u16),
        _ => None,
    }
}

fn ref_isd(s: &str) -> Option<Isd> {
    ref_u16(s).map(Isd::new)
}

fn ref_asn(s: &str) -> Option<Asn> {
    // decimal spelling: only for BGP-range AS numbers (< 2^32)
    if let Some(v) = ref_digits(s, 10) {
        return match v {
            Some(v) if v <= u32::MAX as u128 => Asn::new_checked(v as u64),
            // a decimal that fits u64 but is too large is rejected outright; one that does not
            // even fit u64 cannot be a colon form either (no ':').
            _ => None,
        };
    }
    // colon spelling: exactly three 16-bit hex groups
    let parts: Vec<&str> = s.split(':').collect();
    if parts.len() != 3 {
        return None;
    }
    let mut val: u64 = 0;
    for p in parts {
        match ref_digits(p, 16)? {
            Some(v) if v <= 0xffff => val = (val << 16) | v as u64,
            _ => return None,
        }
    }
    Asn::new_checked(val)
}

fn ref_isd_asn(s: &str) -> Option<IsdAsn> {
    if s.chars().filter(|c| *c == '-').count() != 1 {
        return None;
    }
    let (i, a) = s.split_once('-')?;
    Some(IsdAsn::new(ref_isd(i)?, ref_asn(a)?))
}

fn ref_svc(s: &str) -> Option<ServiceAddr> {
    let (name, suffix) = match s.split_once('_') {
        Some((n, suf)) => (n, suf),
        None => (s, "A"),
    };
    let base = match name {
        "CS" => ServiceAddr::CONTROL,
        "DS" => ServiceAddr::DAEMON,
        "Wildcard" => ServiceAddr::WILDCARD,
        _ => return None,
    };
    match suffix {
        "A" => Some(base),
        "M" => Some(base.to_multicast()),
        _ => None,
    }
}

fn ref_v4(s: &str) -> Option<Ipv4Addr> {
    s.parse().ok()
}
fn ref_v6(s: &str) -> Option<Ipv6Addr> {
    s.parse().ok()
}

fn ref_host(s: &str) -> Option<ScionHostAddr> {
    ref_v4(s)
        .map(ScionHostAddr::V4)
        .or_else(|| ref_v6(s).map(ScionHostAddr::V6))
        .or_else(|| ref_svc(s).map(ScionHostAddr::Svc))
}

/// `<isd-as>,<host>`: split at the first comma
fn ref_scion_addr(s: &str) -> Option<ScionAddr> {
    let (ia, h) = s.split_once(',')?;
    Some(ScionAddr::new(ref_isd_asn(ia)?, ref_host(h)?))
}

/// `[<isd-as>,<host>]:<port>`
fn ref_socket(s: &str) -> Option<ScionSocketAddr> {
    let (addr, port) = s.rsplit_once(':')?;
    let inner = addr.strip_prefix('[')?.strip_suffix(']')?;
    let a = ref_scion_addr(inner)?;
    Some(ScionSocketAddr::from_scion_addr(a, ref_u16(port)?))
}

// ------------------------------------------------------------------------------------------

struct Ty {
    name: &'static str,
    /// (real parse outcome as debug string or None, reference outcome as debug string or None)
    run: fn(&str) -> (Option<String>, Option<String>),
}

fn both<T: FromStr + Debug>(s: &str, r: Option<T>) -> (Option<String>, Option<String>) {
    (
        T::from_str(s).ok().map(|v| format!("{v:?}")),
        r.map(|v| format!("{v:?}")),
    )
}

fn types() -> Vec<Ty> {
    vec![
        Ty { name: "Isd", run: |s| both::<Isd>(s, ref_isd(s)) },
        Ty { name: "Asn", run: |s| both::<Asn>(s, ref_asn(s)) },
        Ty { name: "IsdAsn", run: |s| both::<IsdAsn>(s, ref_isd_asn(s)) },
        Ty { name: "ServiceAddr", run: |s| both::<ServiceAddr>(s, ref_svc(s)) },
        Ty { name: "ScionHostAddr", run: |s| both::<ScionHostAddr>(s, ref_host(s)) },
        Ty { name: "ScionAddr", run: |s| both::<ScionAddr>(s, ref_scion_addr(s)) },
        Ty {
            name: "ScionAddrV4",
            run: |s| both::<ScionAddrV4>(s, ref_scion_addr(s).and_then(|a| ScionAddrV4::try_from(a).ok())),
        },
        Ty {
            name: "ScionAddrV6",
            run: |s| both::<ScionAddrV6>(s, ref_scion_addr(s).and_then(|a| ScionAddrV6::try_from(a).ok())),
        },
        Ty {
            name: "ScionAddrSvc",
            run: |s| both::<ScionAddrSvc>(s, ref_scion_addr(s).and_then(|a| ScionAddrSvc::try_from(a).ok())),
        },
        Ty {
            name: "ScionIpAddr",
            run: |s| {
                both::<ScionIpAddr>(
                    s,
                    ref_scion_addr(s).and_then(|a| a.ip().map(|ip| ScionIpAddr::new(a.isd_asn(), ip))),
                )
            },
        },
        Ty { name: "ScionSocketAddr", run: |s| both::<ScionSocketAddr>(s, ref_socket(s)) },
        Ty {
            name: "ScionSocketAddrV4",
            run: |s| {
                both::<ScionSocketAddrV4>(
                    s,
                    ref_socket(s).and_then(|a| match a {
                        ScionSocketAddr::V4(x) => Some(x),
                        _ => None,
                    }),
                )
            },
        },
        Ty {
            name: "ScionSocketAddrV6",
            run: |s| {
                both::<ScionSocketAddrV6>(
                    s,
                    ref_socket(s).and_then(|a| match a {
                        ScionSocketAddr::V6(x) => Some(x),
                        _ => None,
                    }),
                )
            },
        },
        Ty {
            name: "ScionSocketAddrSvc",
            run: |s| {
                both::<ScionSocketAddrSvc>(
                    s,
                    ref_socket(s).and_then(|a| match a {
                        ScionSocketAddr::Svc(x) => Some(x),
                        _ => None,
                    }),
                )
            },
        },
        Ty {
            name: "ScionSocketIpAddr",
            run: |s| both::<ScionSocketIpAddr>(s, ref_socket(s).and_then(|a| a.try_to_scion_sock_ip_addr())),
        },
    ]
}

/// Differential check of one string against every type.
fn check_string(tys: &[Ty], s: &str, family: &str, mon: &mut Mon) {
    for t in tys {
        mon.eval();
        match catch(|| (t.run)(s)) {
            Err(p) => {
                mon.violation(
                    format!("panic:{}:{}", t.name, p.site()),
                    format!("{}::from_str({s:?}) panicked: {}", t.name, p.0),
                    json!({"type": t.name, "input": s, "family": family}),
                );
            }
            Ok((real, reference)) => {
                if real.is_some() || reference.is_some() {
                    mon.count("accepted_by_either");
                    // shape: which type accepted which structural class of string
                    mon.shape(&(t.name, classify(s)));
                }
                match (&real, &reference) {
                    (Some(a), Some(b)) if a == b => {}
                    (None, None) => {}
                    (Some(a), None) => {
                        mon.violation(
                            format!("accepts-garbage:{}", t.name),
                            format!("{}::from_str({s:?}) = Ok({a}) but the string is not a text form of any value", t.name),
                            json!({"type": t.name, "input": s, "family": family, "real": a}),
                        );
                    }
                    (None, Some(b)) => {
                        mon.violation(
                            format!("rejects-valid:{}", t.name),
                            format!("{}::from_str({s:?}) is Err, reference grammar reads {b}", t.name),
                            json!({"type": t.name, "input": s, "family": family, "reference": b}),
                        );
                    }
                    (Some(a), Some(b)) => {
                        mon.violation(
                            format!("value-mismatch:{}", t.name),
                            format!("{}::from_str({s:?}) = {a}, reference reads {b}", t.name),
                            json!({"type": t.name, "input": s, "family": family, "real": a, "reference": b}),
                        );
                    }
                }
            }
        }
    }
}

/// structural class of a string: sequence of character classes with runs collapsed
fn classify(s: &str) -> String {
    let mut out = String::new();
    let mut last = '\0';
    for c in s.chars() {
        let k = match c {
            '0'..='9' => 'd',
            'a'..='f' | 'A'..='F' => 'h',
            c if c.is_ascii_alphabetic() => 'l',
            c if c.is_ascii() => c,
            _ => 'U',
        };
        if k != last || !matches!(k, 'd' | 'h' | 'l') {
            out.push(k);
        }
        last = k;
    }
    out
}

// ------------------------------------------------------------------------------------------
// Value generators

fn gen_isd(r: &mut Rng) -> Isd {
    const B: [u16; 8] = [0, 1, 9, 10, 255, 256, 65534, 65535];
    Isd::new(if r.chance(1, 2) { *r.pick(&B) } else { r.u16() })
}

fn gen_asn(r: &mut Rng) -> Asn {
    const B: [u64; 11] = [
        0,
        1,
        0xfffe,
        0xffff_fffe,
        0xffff_ffff,
        0x1_0000_0000,
        0x1_0000_0001,
        0xffff_ffff_ffff,
        0xffff_ffff_fffe,
        0xff00_0000_0110,
        0x0001_0000_0000,
    ];
    let v = match r.below(4) {
        0 | 1 => *r.pick(&B),
        2 => r.u64() & 0xffff_ffff,
        _ => r.u64() & 0xffff_ffff_ffff,
    };
    Asn::new_checked(v).expect("48-bit")
}

fn gen_ia(r: &mut Rng) -> IsdAsn {
    IsdAsn::new(gen_isd(r), gen_asn(r))
}

fn gen_v4(r: &mut Rng) -> Ipv4Addr {
    const B: [[u8; 4]; 5] = [[0, 0, 0, 0], [255, 255, 255, 255], [127, 0, 0, 1], [10, 0, 0, 1], [1, 2, 3, 4]];
    if r.chance(1, 2) { Ipv4Addr::from(*r.pick(&B)) } else { Ipv4Addr::from(r.u32()) }
}

fn gen_v6(r: &mut Rng) -> Ipv6Addr {
    match r.below(8) {
        0 => Ipv6Addr::UNSPECIFIED,
        1 => Ipv6Addr::LOCALHOST,
        2 => gen_v4(r).to_ipv6_mapped(),
        3 => Ipv6Addr::from(r.u32() as u128), // v4-compatible
        4 => Ipv6Addr::from(u128::MAX),
        5 => "2001:db8::1".parse().unwrap(),
        6 => {
            // random with zero runs
            let mut segs = [0u16; 8];
            for s in segs.iter_mut() {
                if r.chance(1, 2) {
                    *s = r.u16();
                }
            }
            Ipv6Addr::from(segs)
        }
        _ => Ipv6Addr::from(((r.u64() as u128) << 64) | r.u64() as u128),
    }
}

fn gen_named_svc(r: &mut Rng) -> ServiceAddr {
    let base = *r.pick(&[ServiceAddr::CONTROL, ServiceAddr::DAEMON, ServiceAddr::WILDCARD]);
    if r.bool() { base.to_multicast() } else { base }
}

fn is_named(s: ServiceAddr) -> bool {
    matches!(s.to_anycast(), ServiceAddr::CONTROL | ServiceAddr::DAEMON | ServiceAddr::WILDCARD)
}

fn gen_svc(r: &mut Rng) -> ServiceAddr {
    if r.chance(3, 4) {
        gen_named_svc(r)
    } else {
        ServiceAddr(*r.pick(&[0u16, 3, 0x7fff, 0x8000, 0xffff, 0x0011, 0x1234]))
    }
}

fn gen_host(r: &mut Rng) -> ScionHostAddr {
    match r.below(3) {
        0 => ScionHostAddr::V4(gen_v4(r)),
        1 => ScionHostAddr::V6(gen_v6(r)),
        _ => ScionHostAddr::Svc(gen_svc(r)),
    }
}

fn gen_port(r: &mut Rng) -> u16 {
    if r.bool() { *r.pick(&[0u16, 1, 80, 65535, 30041]) } else { r.u16() }
}

fn roundtrip<T>(name: &str, v: &T, unnamed_svc: bool, mon: &mut Mon)
where
    T: FromStr + Display + Debug + PartialEq,
{
    mon.eval();
    mon.count("roundtrips");
    let text = v.to_string();
    let back = catch(|| T::from_str(&text));
    let ok = matches!(&back, Ok(Ok(b)) if b == v);
    if !ok {
        let sig = if unnamed_svc {
            // service numbers without a name print as `<SVC:0x….>`, which has no parser
            "roundtrip:unnamed-service-number".to_string()
        } else {
            format!("roundtrip:{name}")
        };
        let got = match back {
            Ok(Ok(b)) => format!("Ok({b:?})"),
            Ok(Err(_)) => "Err".to_string(),
            Err(p) => format!("panic {}", p.0),
        };
        mon.violation(
            sig,
            format!("{name}: display({v:?}) = {text:?} parses to {got}"),
            json!({"type": name, "text": text, "value": format!("{v:?}")}),
        );
    }
    mon.shape(&(name, "rt", classify(&text)));
}

fn values(r: &mut Rng, mon: &mut Mon, corpus: &mut Vec<String>) {
    let ia = gen_ia(r);
    let host = gen_host(r);
    let port = gen_port(r);
    let unnamed = matches!(host, ScionHostAddr::Svc(s) if !is_named(s));

    roundtrip("Isd", &ia.isd(), false, mon);
    roundtrip("Asn", &ia.asn(), false, mon);
    roundtrip("IsdAsn", &ia, false, mon);
    roundtrip("ScionHostAddr", &host, unnamed, mon);
    let addr = ScionAddr::new(ia, host);
    roundtrip("ScionAddr", &addr, unnamed, mon);
    let sock = ScionSocketAddr::new(ia, host, port);
    roundtrip("ScionSocketAddr", &sock, unnamed, mon);
    match host {
        ScionHostAddr::V4(h) => {
            roundtrip("ScionAddrV4", &ScionAddrV4::new(ia, h), false, mon);
            roundtrip("ScionSocketAddrV4", &ScionSocketAddrV4::new(ia, h, port), false, mon);
            roundtrip("ScionIpAddr", &ScionIpAddr::new(ia, IpAddr::V4(h)), false, mon);
            roundtrip("ScionSocketIpAddr", &ScionSocketIpAddr::new(ia, IpAddr::V4(h), port), false, mon);
        }
        ScionHostAddr::V6(h) => {
            roundtrip("ScionAddrV6", &ScionAddrV6::new(ia, h), false, mon);
            roundtrip("ScionSocketAddrV6", &ScionSocketAddrV6::new(ia, h, port), false, mon);
            roundtrip("ScionIpAddr", &ScionIpAddr::new(ia, IpAddr::V6(h)), false, mon);
            roundtrip("ScionSocketIpAddr", &ScionSocketIpAddr::new(ia, IpAddr::V6(h), port), false, mon);
        }
        ScionHostAddr::Svc(h) => {
            roundtrip("ServiceAddr", &h, unnamed, mon);
            roundtrip("ScionAddrSvc", &ScionAddrSvc::new(ia, h), unnamed, mon);
            roundtrip("ScionSocketAddrSvc", &ScionSocketAddrSvc::new(ia, h, port), unnamed, mon);
        }
    }
    if !unnamed {
        corpus.push(ia.isd().to_string());
        corpus.push(ia.asn().to_string());
        corpus.push(ia.to_string());
        corpus.push(host.to_string());
        corpus.push(addr.to_string());
        corpus.push(sock.to_string());
    }
}

// ------------------------------------------------------------------------------------------

const ALPHABET: [char; 24] = [
    '0', '1', '9', 'a', 'f', 'F', ':', '-', ',', '.', '[', ']', '#', '%', '/', ' ', '+', '_', 'C', 'S', 'é', 'x',
    '\u{0}', 'M',
];

fn nth_string(mut idx: u64, len: usize) -> String {
    let mut s = String::new();
    for _ in 0..len {
        s.push(ALPHABET[(idx % ALPHABET.len() as u64) as usize]);
        idx /= ALPHABET.len() as u64;
    }
    s
}

fn fixed_strings() -> Vec<String> {
    let mut v: Vec<String> = [
        ":80",
        "é:1",
        "x1-ff00:0:110,10.0.0.1y:1000",
        "[1-ff00:0:110,10.0.0.1]:1000",
        "1-ff00:0:110,10.0.0.1:1000",
        "[1-ff00:0:110,10.0.0.1:1000",
        "1-ff00:0:110,10.0.0.1]:1000",
        "[[1-ff00:0:110,10.0.0.1]]:1000",
        "[1-ff00:0:110,10.0.0.1]:65536",
        "[1-ff00:0:110,10.0.0.1]:-1",
        "[1-ff00:0:110,10.0.0.1]:",
        "[1-ff00:0:110,10.0.0.1]",
        "[1-ff00:0:110,::1]:80",
        "[1-ff00:0:110,[::1]]:80",
        "[1-ff00:0:110,CS]:80",
        "[1-ff00:0:110,CS_A]:80",
        "[1-ff00:0:110,CS_M]:80",
        "[1-ff00:0:110,CS_X]:80",
        "[1-ff00:0:110,<SVC:0x1234>]:80",
        "1-4294967295",
        "1-4294967296",
        "1-0:ffff:ffff",
        "1-1:0:0",
        "1-ffff:ffff:ffff",
        "1-10000:0:0",
        "1-0:0:0:0",
        "1-0:0",
        "1-:0:0",
        "65536-1",
        "-1-1",
        "1--1",
        "1-1-1",
        "+1-+1",
        "1-+f:+f:+f",
        "0001-0001",
        "1-00000ff:0:0",
        "1-FF00:0:110",
        " 1-1",
        "1-1 ",
        "1-1\n",
        "1-99999999999999999999999999999999999999999",
        "1-18446744073709551616",
        "1-18446744073709551615",
        "",
        "[",
        "]",
        "[]",
        "[]:",
        "[]:1",
        "[:1",
        "]:1",
        ":",
        ",",
        "1-1,",
        ",1.1.1.1",
        "1-1,1.1.1.1,",
        "1-1,,1.1.1.1",
        "1-1,1.1.1.1,2.2.2.2",
        "1-1,01.1.1.1",
        "1-1,1.1.1",
        "1-1,::ffff:1.2.3.4",
        "1-1,fe80::1%eth0",
        "Wildcard",
        "Wildcard_M",
        "wildcard",
        "CS_",
        "_A",
        "CS_A_A",
        "DS_M",
    ]
    .iter()
    .map(|s| s.to_string())
    .collect();
    // long digit strings and long inputs
    v.push("9".repeat(400));
    v.push(format!("[1-1,1.1.1.1]:{}", "0".repeat(300) + "80"));
    v.push(format!("{}1-1", "0".repeat(100)));
    v
}

fn mutate(tys: &[Ty], base: &str, mon: &mut Mon) {
    let chars: Vec<char> = base.chars().collect();
    // delete
    for i in 0..chars.len() {
        let s: String = chars.iter().enumerate().filter(|(j, _)| *j != i).map(|(_, c)| *c).collect();
        check_string(tys, &s, "delete1", mon);
    }
    for a in ALPHABET {
        for i in 0..=chars.len() {
            // insert
            let mut c2 = chars.clone();
            c2.insert(i, a);
            check_string(tys, &c2.iter().collect::<String>(), "insert1", mon);
            // replace
            if i < chars.len() && chars[i] != a {
                let mut c3 = chars.clone();
                c3[i] = a;
                check_string(tys, &c3.iter().collect::<String>(), "replace1", mon);
            }
        }
    }
    // transpositions of adjacent characters
    for i in 0..chars.len().saturating_sub(1) {
        let mut c4 = chars.clone();
        c4.swap(i, i + 1);
        check_string(tys, &c4.iter().collect::<String>(), "swap", mon);
    }
    // truncations
    for i in 0..chars.len() {
        check_string(tys, &chars[..i].iter().collect::<String>(), "prefix", mon);
        check_string(tys, &chars[i..].iter().collect::<String>(), "suffix", mon);
    }
}

pub fn run(args: &Args, mon: &mut Mon) -> (String, Vec<&'static str>) {
    let thorough = args.thorough();
    mon.floor("roundtrips", 1000);
    mon.floor("accepted_by_either", 1000);
    mon.floor("short_strings", 1000);

    if let Some(path) = &args.replay {
        let v: serde_json::Value = serde_json::from_str(&std::fs::read_to_string(path).expect("replay file")).unwrap();
        let tys = types();
        if let Some(s) = v.get("input").and_then(|s| s.as_str()) {
            check_string(&tys, s, "replay", mon);
        }
        if let Some(s) = v.get("text").and_then(|s| s.as_str()) {
            check_string(&tys, s, "replay", mon);
        }
        return ("replay".into(), vec![]);
    }

    // 1. values: round trips + corpus of valid text forms
    let scale = args.param_u64("scale", 1);
    let n_values: u64 = if thorough { 200_000 * scale } else { 20_000 * scale };
    let mut corpus: Vec<String> = Vec::new();
    {
        let mut r = Rng::fork(args.seed, 15);
        for i in 0..n_values {
            let mut local = Vec::new();
            values(&mut r, mon, &mut local);
            if i < if thorough { 1500 * scale } else { 250 * scale } {
                corpus.extend(local);
            }
        }
    }
    corpus.sort();
    corpus.dedup();

    // 2. fixed hostile strings
    let tys = types();
    for s in fixed_strings() {
        check_string(&tys, &s, "fixed", mon);
    }

    // 3. all short strings over the structural alphabet (exhaustive)
    let max_len = if thorough { 4 } else { 3 };
    let mut total = 0u64;
    for len in 0..=max_len {
        let n = (ALPHABET.len() as u64).pow(len as u32);
        total += n;
        par_run(mon, args.threads, n, |i, m| {
            let tys = types();
            let s = nth_string(i, len);
            m.count("short_strings");
            check_string(&tys, &s, "short", m);
        });
    }
    mon.note("short_strings_exhaustive_up_to_len", json!(max_len));
    mon.note("short_strings_total", json!(total));

    // 4. single-edit mutations of valid text forms
    let n = corpus.len() as u64;
    mon.note("mutation_corpus", json!(n));
    par_run(mon, args.threads, n, |i, m| {
        let tys = types();
        mutate(&tys, &corpus[i as usize], m);
    });

    // 5. alternative spellings derived from values: leading zeros, '+', upper-case hex, _A suffix,
    //    missing brackets
    {
        let mut r = Rng::fork(args.seed, 1515);
        let n_alt = if thorough { 50_000 * scale } else { 5_000 * scale };
        for _ in 0..n_alt {
            let ia = gen_ia(&mut r);
            let isd = ia.isd().to_u16();
            let asn = ia.asn().to_u64();
            let isd_s = match r.below(3) {
                0 => format!("{isd}"),
                1 => format!("{isd:07}"),
                _ => format!("+{isd}"),
            };
            let asn_s = match r.below(5) {
                0 if asn <= u32::MAX as u64 => format!("{asn:012}"),
                1 => format!("{:X}:{:X}:{:X}", (asn >> 32) & 0xffff, (asn >> 16) & 0xffff, asn & 0xffff),
                2 => format!("{:06x}:{:x}:{:04x}", (asn >> 32) & 0xffff, (asn >> 16) & 0xffff, asn & 0xffff),
                3 => format!("{asn}"), // decimal even above 2^32 (must be rejected then)
                _ => format!("{}", ia.asn()),
            };
            let host = gen_host(&mut r);
            let host_s = match host {
                ScionHostAddr::Svc(s) if is_named(s) && s.is_anycast() && r.bool() => format!("{s}_A"),
                ScionHostAddr::V6(v6) if r.chance(1, 3) => format!("[{v6}]"),
                h => h.to_string(),
            };
            let port = gen_port(&mut r);
            let port_s = match r.below(4) {
                0 => format!("{port:08}"),
                1 => format!("{}", port as u32 + 65536),
                _ => format!("{port}"),
            };
            let s = match r.below(6) {
                0 => format!("{isd_s}-{asn_s}"),
                1 => format!("{isd_s}-{asn_s},{host_s}"),
                2 => format!("[{isd_s}-{asn_s},{host_s}]:{port_s}"),
                3 => format!("{isd_s}-{asn_s},{host_s}:{port_s}"),
                4 => format!("[{isd_s}-{asn_s},{host_s}]:{port_s} "),
                _ => format!("[{isd_s}-{asn_s}, {host_s}]:{port_s}"),
            };
            check_string(&tys, &s, "alt-spelling", mon);
            mon.sample(|| json!({"family": "alt-spelling", "input": s}));
        }
    }
    mon.sample_labeled("short", || json!({"family": "short", "input": nth_string(12345, 3)}));
    if let Some(c) = corpus.first() {
        mon.sample_labeled("mutation-base", || json!({"family": "mutation-base", "input": c}));
    }

    (
        format!(
            "every string of length <= {max_len} over a {}-char structural alphabet (exhaustive), every single-char \
             insert/delete/replace/swap/truncation of {} generated valid text forms, alternative spellings and a fixed \
             hostile list, each fed to 15 address/identifier parsers and compared with an independent reference grammar; \
             {} boundary-directed values round-tripped through Display/FromStr. A case is non-trivial when the real or \
             the reference parser accepts it; distinct = distinct (type, character-class skeleton) pairs.",
            ALPHABET.len(),
            corpus.len(),
            n_values
        ),
        vec![
            "std's Ipv4Addr/Ipv6Addr/integer FromStr grammars are trusted and shared by reference and crate",
            "reference grammar: '[ia,host]:port' is the only socket spelling; 'CS|DS|Wildcard[_A|_M]' the only service spellings; std integer leniencies (leading zeros, leading '+') count as documented spellings",
            "serde string forms are SerializeDisplay/DeserializeFromStr and therefore covered by Display/FromStr",
        ],
    )
}
