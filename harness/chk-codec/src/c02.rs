//! C02 — parsing untrusted bytes is total and memory-safe.
//!
//! The deciding oracles are the sanitizers this binary is built under (Miri with debug assertions
//! off, ASan, valgrind) plus, in every build: `catch_unwind` (panic = violation, which in the
//! debug-assert build includes the crate's own `debug_assert!` preconditions and overflow checks),
//! size invariants (`view ≤ input`, `view + rest = input`, size stable across calls) and guard
//! bytes around the buffer handed to mutators.
//!
//! Every input lives in an exact-size heap allocation so that a sanitizer red zone abuts the first
//! byte after the view (and the byte before it). Workload: the crate's own
//! `exec_every_view_function` exerciser (every `pub fn` of every view type) plus Debug/Display,
//! `to_model`, `try_reverse`, `advance_*`, `segments()`, `expiration()`, classification, typed
//! views, and the UDP/SCMP payload views on every truncation of the payload.

use refscion::wire::{RHop, RInfo, RPacket, RPath, RStdPath};
use sciparse::{
    core::{convert::TryFromView, view::View},
    dataplane_path::{
        standard::view::StandardPathView,
        view::{ScionDpPathViewExt, ScionDpPathViewRef},
    },
    header::view::ScionHeaderView,
    packet::{
        model::ScionRawPacket,
        view::{ScionRawPacketView, ScionScmpPacketView, ScionUdpPacketView},
    },
    payload::{scmp::view::{ScmpMessageExt, ScmpPayloadView}, udp::view::UdpDatagramView},
    util::fuzz::view_function_checks as vfc,
};
use serde_json::json;
use vmon::{Args, Mon, Rng, catch, hex, par_run, unhex};

const GUARD: usize = 32;
const GB: u8 = 0x5C;

/// Exercise everything on one input buffer. `input` is an exact-size allocation.
pub fn exercise(input: &[u8], mon: &mut Mon, label: &str) {
    mon.eval();
    let rj = || json!({"bytes": hex(input), "family": label});

    // ---- 1. whole-packet view on an immutable exact-size copy
    let exact: Box<[u8]> = input.to_vec().into_boxed_slice();
    let r = catch(|| match ScionRawPacketView::try_from_slice(&exact) {
        Err(_) => None,
        Ok((v, rest)) => {
            let vl = v.as_slice().len();
            let hl = v.header().as_slice().len();
            let pl = v.payload().len();
            let dbg = format!("{:?}", v.header());
            let _ = dbg.len();
            // path-level read-only operations
            match v.header().path() {
                ScionDpPathViewRef::Standard(p) => {
                    let _ = p.expiration();
                    let _ = p.segments().count();
                    let _ = format!("{p} {p:?}");
                    let _ = p.calculate_segment_index(p.curr_hop_field_idx() as usize);
                    let _ = p.curr_egress_interface();
                }
                ScionDpPathViewRef::OneHop(p) => {
                    let _ = p.expiration();
                    let _ = format!("{p} {p:?}");
                }
                _ => {}
            }
            let dp = v.header().path();
            let _ = (dp.expiration(), dp.first_egress_interface(), dp.last_ingress_interface(), dp.current_egress_interface(), dp.current_ingress_interface());
            let _ = dp.to_model();
            let _ = dp.to_owned_view();
            let _ = v.src_scion_addr();
            let _ = v.dst_scion_addr();
            let _ = v.try_classify().map(|c| c.dst_socket_addr());
            let _ = ScionRawPacket::try_from_view(v);
            Some((vl, rest.len(), hl, pl))
        }
    });
    let parsed = match r {
        Err(pn) => {
            mon.violation(format!("panic:packet-view:{}", pn.site()), pn.0, rj());
            return;
        }
        Ok(None) => {
            mon.count("rejected");
            None
        }
        Ok(Some((vl, rest, hl, pl))) => {
            mon.count("parsed");
            if vl + rest != input.len() || vl > input.len() {
                mon.violation("view-larger-than-input", format!("view {vl} + rest {rest} != input {}", input.len()), rj());
            }
            if hl + pl != vl {
                mon.violation("view-parts-inconsistent", format!("header {hl} + payload {pl} != view {vl}"), rj());
            }
            Some(vl)
        }
    };

    // ---- 2. mutable view inside guard bytes: every accessor and mutator
    if let Some(vl) = parsed {
        let mut buf = vec![GB; GUARD + input.len() + GUARD];
        buf[GUARD..GUARD + input.len()].copy_from_slice(input);
        let r = catch(|| {
            let (v, _rest) = ScionRawPacketView::try_from_mut_slice(&mut buf[GUARD..GUARD + input.len()]).expect("parsed immutably");
            vfc::packet::exec_every_view_function(v);
            // operations that change the path in place
            if let sciparse::dataplane_path::view::ScionDpPathViewRefMut::Standard(p) = v.header_mut().path_mut() {
                let _ = p.try_reverse();
                let _ = p.advance_ingress(false);
                let _ = p.advance_egress();
                let _ = p.advance_ingress(true);
                let _ = p.try_reverse();
            }
            v.as_slice().len()
        });
        match r {
            Err(pn) => mon.violation(format!("panic:view-functions:{}", pn.site()), pn.0, rj()),
            Ok(vl2) => {
                if vl2 != vl {
                    mon.violation("view-size-changed", format!("view size {vl} -> {vl2} after safe calls"), rj());
                }
            }
        }
        if buf[..GUARD].iter().any(|b| *b != GB) || buf[GUARD + input.len()..].iter().any(|b| *b != GB) {
            mon.violation("wrote-outside-buffer", "guard bytes around the input changed", rj());
        }
        if buf[GUARD + vl..GUARD + input.len()] != input[vl..] {
            mon.violation("wrote-outside-view", "bytes after the view (rest of the input) changed", rj());
        }
        // exact-size mutable allocation for the sanitizers (no guard: red zone abuts)
        let mut exact_mut: Box<[u8]> = input[..vl].to_vec().into_boxed_slice();
        let r = catch(|| {
            if let Ok(mut b) = ScionRawPacketView::try_from_boxed(std::mem::take(&mut exact_mut)) {
                vfc::packet::exec_every_view_function(&mut b);
            }
        });
        if let Err(pn) = r {
            mon.violation(format!("panic:view-functions-boxed:{}", pn.site()), pn.0, rj());
        }
    }

    // ---- 3. typed views straight from the bytes, header view alone, path view alone
    let r = catch(|| {
        let mut n = 0u32;
        if let Ok((v, _)) = ScionUdpPacketView::try_from_slice(&exact) {
            let _ = (v.udp().src_port(), v.udp().length(), v.udp().payload().len(), v.src_socket_addr(), v.dst_socket_addr());
            let _ = format!("{:?}", v.udp());
            n += 1;
        }
        if let Ok((v, _)) = ScionScmpPacketView::try_from_slice(&exact) {
            let _ = format!("{:?}", v.scmp().message());
            let _ = v.scmp().message().to_model();
            n += 1;
        }
        if let Ok((h, _)) = ScionHeaderView::try_from_slice(&exact) {
            let _ = format!("{h:?}");
            n += 1;
        }
        n
    });
    match r {
        Err(pn) => mon.violation(format!("panic:typed-views:{}", pn.site()), pn.0, rj()),
        Ok(n) => mon.count_n("typed_views_built", n as u64),
    }
}

/// standalone payload / path views on a byte string
pub fn exercise_fragment(input: &[u8], mon: &mut Mon, label: &str) {
    mon.eval();
    let rj = || json!({"fragment": hex(input), "family": label});
    let exact: Box<[u8]> = input.to_vec().into_boxed_slice();
    let r = catch(|| {
        let mut built = 0;
        if let Ok((v, rest)) = UdpDatagramView::try_from_slice(&exact) {
            assert!(v.as_slice().len() + rest.len() == exact.len());
            vfc::payload::udp::exec_every_view_function_ref(v);
            built += 1;
        }
        if let Ok((v, rest)) = ScmpPayloadView::try_from_slice(&exact) {
            assert!(v.as_slice().len() + rest.len() == exact.len());
            let _ = format!("{:?}", v.message());
            let _ = v.message().to_model();
            let _ = (v.message_type(), v.code(), v.checksum(), v.dst_port());
            built += 1;
        }
        if let Ok((v, rest)) = StandardPathView::try_from_slice(&exact) {
            assert!(v.as_slice().len() + rest.len() == exact.len());
            vfc::path::exec_standard_path_view(v);
            let _ = v.expiration();
            let _ = format!("{v}");
            built += 1;
        }
        let mut m = exact.to_vec();
        if let Ok((v, _)) = StandardPathView::try_from_mut_slice(&mut m) {
            vfc::path::exec_standard_path_view_mut(v);
            let _ = v.try_reverse();
        }
        let mut m = exact.to_vec();
        if let Ok((v, _)) = ScmpPayloadView::try_from_mut_slice(&mut m) {
            vfc::payload::scmp::exec_every_view_function(v);
        }
        built
    });
    match r {
        Err(pn) => mon.violation(format!("panic:fragment-views:{}", pn.site()), pn.0, rj()),
        Ok(n) => mon.count_n("fragment_views_built", n),
    }
}

// ---------------------------------------------------------------------------------------------
// input families

fn rand_hop(r: &mut Rng) -> RHop {
    RHop { flags: r.u8(), exp: r.u8(), cons_in: r.u16(), cons_eg: r.u16(), mac: [r.u8(), r.u8(), r.u8(), r.u8(), r.u8(), r.u8()] }
}
fn rand_info(r: &mut Rng) -> RInfo {
    RInfo { flags: r.u8(), rsv: r.u8(), seg_id: r.u16(), timestamp: r.u32() }
}

#[derive(Clone, Copy, Debug)]
pub struct Shape {
    pub path_type: u8,
    pub addr_byte: u8,
    pub seg: [u8; 3],
    pub curr: u8, // raw first meta byte (C + CurrHF)
    pub hdr_len_mode: u8,
    pub payload_mode: u8,
    pub next_hdr: u8,
    pub l4_mode: u8,
    pub trunc: u8,
}

/// Build the byte string for a shape; random fill everywhere else.
pub fn build(sh: &Shape, r: &mut Rng) -> Vec<u8> {
    let dl = (sh.addr_byte >> 4) & 3;
    let sl = sh.addr_byte & 3;
    let path = match sh.path_type {
        0 => RPath::Empty,
        1 => {
            let ni = RStdPath::n_infos(sh.seg);
            let nh = RStdPath::n_hops(sh.seg);
            RPath::Standard(RStdPath {
                curr_inf: sh.curr >> 6,
                curr_hf: sh.curr & 0x3f,
                rsv: r.u8() & 0x3f,
                seg_len: sh.seg,
                infos: (0..ni).map(|_| rand_info(r)).collect(),
                hops: (0..nh).map(|_| rand_hop(r)).collect(),
            })
        }
        2 => RPath::OneHop { info: rand_info(r), hops: [rand_hop(r), rand_hop(r)] },
        t => RPath::Opaque { path_type: t, data: r.bytes(4 * (sh.seg[0] as usize % 9)) },
    };
    // L4 payload
    let body_len = match sh.payload_mode % 6 {
        0 => 0,
        1 => 3,
        2 => 8,
        3 => 27,
        4 => 64,
        _ => 1300,
    };
    let mut payload = r.bytes(body_len);
    if payload.len() >= 8 && sh.next_hdr == 17 {
        let l = match sh.l4_mode % 5 {
            0 => payload.len() as u16,
            1 => 0,
            2 => 7,
            3 => payload.len() as u16 + 1,
            _ => 65535,
        };
        payload[4..6].copy_from_slice(&l.to_be_bytes());
    }
    if !payload.is_empty() && sh.next_hdr == 202 {
        payload[0] = [1u8, 2, 4, 5, 6, 128, 129, 130, 131, 0, 3, 127, 255, 100][sh.l4_mode as usize % 14];
    }
    let mut p = RPacket {
        version: 0,
        traffic_class: r.u8(),
        flow_id: r.u32() & 0xfffff,
        next_hdr: sh.next_hdr,
        hdr_len_units: 0,
        payload_len: 0,
        path_type: sh.path_type,
        dt: sh.addr_byte >> 6,
        dl,
        st: (sh.addr_byte >> 2) & 3,
        sl,
        rsv: r.u16(),
        dst_ia: r.u64(),
        src_ia: r.u64(),
        dst_host: r.bytes(4 * (dl as usize + 1)),
        src_host: r.bytes(4 * (sl as usize + 1)),
        path,
        payload,
        trailing: 0,
    };
    let hl = p.header_len();
    p.hdr_len_units = match sh.hdr_len_mode % 6 {
        0 => (hl / 4).min(255) as u8,
        1 => ((hl / 4) + 1).min(255) as u8,
        2 => (hl / 4).saturating_sub(1).min(255) as u8,
        3 => 0,
        4 => 255,
        _ => 9,
    };
    p.payload_len = match (sh.payload_mode / 6) % 4 {
        0 => p.payload.len() as u16,
        1 => 0,
        2 => p.payload.len() as u16 + 1,
        _ => 65535,
    };
    let mut bytes = p.encode();
    match sh.trunc % 7 {
        0 => {}
        1 => {
            bytes.pop();
        }
        2 => bytes.truncate(bytes.len().saturating_sub(4)),
        3 => bytes.truncate(hl.min(bytes.len())),
        4 => bytes.push(r.u8()),
        5 => bytes.extend_from_slice(&r.bytes(7)),
        _ => {
            let k = r.usize(bytes.len() + 1);
            bytes.truncate(k);
        }
    }
    bytes
}

fn shape_key(sh: &Shape, parsed: bool) -> (u8, u8, [u8; 3], u8, u8, u8, bool) {
    let c = |x: u8| if x <= 2 { x } else if x == 63 { 63 } else { 3 };
    (sh.path_type, sh.addr_byte, [c(sh.seg[0]), c(sh.seg[1]), c(sh.seg[2])], sh.hdr_len_mode % 6, sh.next_hdr, sh.trunc % 7, parsed)
}

pub fn run(args: &Args, mon: &mut Mon) -> (String, Vec<&'static str>) {
    mon.floor("parsed", 500);
    mon.floor("rejected", 500);
    mon.floor("typed_views_built", 100);
    mon.floor("fragment_views_built", 100);
    let thorough = args.thorough();
    let miri = cfg!(miri);

    if let Some(path) = &args.replay {
        let v: serde_json::Value = serde_json::from_str(&std::fs::read_to_string(path).expect("replay")).unwrap();
        if let Some(b) = v["bytes"].as_str() {
            exercise(&unhex(b), mon, "replay");
        }
        if let Some(b) = v["fragment"].as_str() {
            exercise_fragment(&unhex(b), mon, "replay");
        }
        return ("replay".into(), vec![]);
    }

    let run_shape = |sh: Shape, i: u64, m: &mut Mon| {
        let mut r = Rng::fork(args.seed, i);
        let bytes = build(&sh, &mut r);
        let before = m.counter("parsed");
        exercise(&bytes, m, "structured");
        let parsed = m.counter("parsed") > before;
        m.shape(&shape_key(&sh, parsed));
    };

    // Family A: all 64^3 segment-length triples (stride-sampled in quick / sanitizer-slow builds)
    // crossed with pointer bytes, address-length nibbles and truncation points.
    let triple_stride: u64 = if miri { 0 } else { args.param_u64("triple_stride", if thorough { 1 } else { 16 }) };
    let n_triples = 64u64 * 64 * 64;
    let mut n_a = 0u64;
    if triple_stride > 0 {
        let per = n_triples / triple_stride;
        n_a = per;
        par_run(mon, args.threads, per, |k, m| {
            if !args.mine(k) {
                return;
            }
            // offset by the seed so that different seeds see different residues
            let t = (k * triple_stride + args.seed % triple_stride) % n_triples;
            let seg = [(t & 63) as u8, ((t >> 6) & 63) as u8, ((t >> 12) & 63) as u8];
            let mut r = Rng::fork(args.seed, 0xA0_0000_0000 + t);
            for variant in 0..3u8 {
                let nh = RStdPath::n_hops(seg);
                let curr_hf = match variant {
                    0 => 0u8,
                    1 => (nh.saturating_sub(1)).min(63) as u8,
                    _ => r.u8() & 63,
                };
                let sh = Shape {
                    path_type: 1,
                    addr_byte: *r.pick(&[0x00u8, 0x33, 0x03, 0x30, 0x40, 0x11, 0xff]),
                    seg,
                    curr: ((r.u8() & 3) << 6) | curr_hf,
                    hdr_len_mode: if r.chance(3, 4) { 0 } else { r.u8() },
                    payload_mode: r.u8(),
                    next_hdr: *r.pick(&[17u8, 202, 0]),
                    l4_mode: r.u8(),
                    trunc: if r.chance(1, 2) { 0 } else { r.u8() },
                };
                run_shape(sh, 0xA1_0000_0000 + t * 4 + variant as u64, m);
            }
        });
    }

    // Family B: all 256 address type/length bytes × path types × header-length modes × small
    // segment shapes × truncations (complete cross product).
    let path_types = [0u8, 1, 2, 3, 4, 255];
    let small_segs: Vec<[u8; 3]> = if miri { vec![[1, 0, 0], [2, 2, 0], [0, 2, 1], [63, 0, 0]] } else { vec![[0, 0, 0], [1, 0, 0], [2, 0, 0], [2, 2, 0], [2, 2, 2], [0, 2, 1], [2, 0, 2], [63, 0, 0], [63, 63, 63], [1, 63, 1]] };
    let mut fam_b: Vec<Shape> = Vec::new();
    for pt in path_types {
        for ab in 0..=255u8 {
            for hm in 0..6u8 {
                for (si, seg) in small_segs.iter().enumerate() {
                    if pt != 1 && si > 1 {
                        continue;
                    }
                    for tr in 0..7u8 {
                        fam_b.push(Shape { path_type: pt, addr_byte: ab, seg: *seg, curr: 0, hdr_len_mode: hm, payload_mode: 0, next_hdr: 17, l4_mode: 0, trunc: tr });
                    }
                }
            }
        }
    }
    let n_b = fam_b.len() as u64;
    let b_stride = if miri { args.param_u64("b_stride", if thorough { 37 } else { 751 }) } else { 1 };
    par_run(mon, args.threads, n_b, |i, m| {
        if !args.mine(i) || (b_stride > 1 && i % b_stride != args.seed % b_stride) {
            return;
        }
        let mut sh = fam_b[i as usize];
        let mut r = Rng::fork(args.seed, 0xB0_0000_0000 + i);
        sh.curr = r.u8();
        sh.payload_mode = r.u8();
        sh.next_hdr = *r.pick(&[17u8, 202, 0, 6]);
        sh.l4_mode = r.u8();
        run_shape(sh, 0xB1_0000_0000 + i, m);
    });

    // Family C: L4 payload views on every truncation of structured UDP / SCMP payloads, and
    // standalone path views
    let scale = args.param_u64("scale", 1);
    let n_c: u64 = if miri { if thorough { 400 } else { 24 } } else if thorough { 40_000 * scale } else { 6_000 * scale };
    par_run(mon, args.threads, n_c, |i, m| {
        if !args.mine(i) {
            return;
        }
        let mut r = Rng::fork(args.seed, 0xC0_0000_0000 + i);
        let blen = *r.pick(&[0usize, 4, 8, 12, 24, 28, 32, 40, 64]);
        let mut body = r.bytes(blen);
        if !body.is_empty() {
            body[0] = *r.pick(&[1u8, 2, 4, 5, 6, 128, 129, 130, 131, 0, 3, 127, 255]);
        }
        if body.len() >= 6 && r.bool() {
            let l = *r.pick(&[0u16, 7, 8, body.len() as u16, body.len() as u16 + 1, 65535]);
            body[4..6].copy_from_slice(&l.to_be_bytes());
        }
        let step = if miri { 7 } else { 1 };
        let mut cut = 0;
        while cut <= body.len() {
            exercise_fragment(&body[..cut], m, "l4-truncation");
            cut += step;
        }
        // an SCMP message quoting a *well-formed* SCION packet (UDP / SCMP / other inside), cut at
        // every byte: accessors that look into the quote (dst_port) must stay inside the view
        {
            let inner_next = *r.pick(&[17u8, 17, 202, 6]);
            let n_in = *r.pick(&[0usize, 1, 7, 8, 9, 20]);
            let mut inner_payload = r.bytes(n_in);
            if inner_next == 17 && inner_payload.len() >= 6 {
                let l = inner_payload.len() as u16;
                inner_payload[4..6].copy_from_slice(&l.to_be_bytes());
            }
            let nh = 1 + r.u8() % 3;
            let ipath = if r.bool() { RPath::Empty } else { RPath::Standard(crate::c12::gen_path(&mut r, [nh, 0, 0], 0, 0, false)) };
            let (dl, sl) = (*r.pick(&[0u8, 3]), *r.pick(&[0u8, 3]));
            let mut q = RPacket {
                version: 0,
                traffic_class: r.u8(),
                flow_id: r.u32() & 0xfffff,
                next_hdr: inner_next,
                hdr_len_units: 0,
                payload_len: 0,
                path_type: if matches!(ipath, RPath::Empty) { 0 } else { 1 },
                dt: 0,
                dl,
                st: 0,
                sl,
                rsv: 0,
                dst_ia: r.u64(),
                src_ia: r.u64(),
                dst_host: r.bytes(4 * (dl as usize + 1)),
                src_host: r.bytes(4 * (sl as usize + 1)),
                path: ipath,
                payload: inner_payload.clone(),
                trailing: 0,
            };
            q.fix_lengths();
            // the quoted header may announce more payload than the quote still holds
            if r.chance(1, 3) {
                q.payload_len = *r.pick(&[8u16, 9, 64, 65535]);
            }
            let quoted = q.encode();
            let qhl = q.header_len();
            let (typ, info_len) = *r.pick(&[(1u8, 4usize), (2, 4), (4, 4), (5, 16), (6, 24)]);
            let mut body = vec![typ, r.u8() & 3, r.u8(), r.u8()];
            body.extend(r.bytes(info_len));
            let fixed = body.len();
            body.extend_from_slice(&quoted);
            let mut cut = if miri { fixed + qhl.saturating_sub(2) } else { 0 };
            while cut <= body.len() {
                let frag = &body[..cut];
                exercise_fragment(frag, m, "scmp-quoting-packet");
                m.count("scmp_quote_truncations");
                // functional oracle for the look into the quote: a port can only come from bytes
                // that are there
                let exact: Box<[u8]> = frag.to_vec().into_boxed_slice();
                if let Ok(Ok((v, _))) = catch(|| ScmpPayloadView::try_from_slice(&exact).map(|(v, rest)| (v.dst_port(), rest.len()))) {
                    let have = cut.saturating_sub(fixed + qhl);
                    if inner_next == 17 && cut >= fixed + qhl {
                        match v {
                            Some(_) if have < 2 => m.violation("scmp-dst-port-read-outside-the-view", format!("SCMP type {typ}: quoted UDP header has {have} bytes, dst_port() = {v:?}"), json!({"fragment": hex(frag), "family": "scmp-quoting-packet"})),
                            Some(p) if p != u16::from_be_bytes([frag[fixed + qhl], frag[fixed + qhl + 1]]) => m.violation("scmp-dst-port-wrong", format!("SCMP type {typ}: dst_port() = {p}"), json!({"fragment": hex(frag), "family": "scmp-quoting-packet"})),
                            Some(_) => m.count("scmp_quote_port_read"),
                            None => {}
                        }
                    }
                }
                cut += 1;
            }
        }
        // standalone path with random meta
        let seg = [r.u8() & 63, if r.bool() { 0 } else { r.u8() & 63 }, if r.bool() { 0 } else { r.u8() & 63 }];
        let seg = if miri { [seg[0] % 4, seg[1] % 4, seg[2] % 4] } else { seg };
        let (ci, ch) = (r.u8() & 3, r.u8() & 63);
        let p = crate::c12::gen_path(&mut r, seg, ci, ch, false);
        let pb = p.encode();
        let k = if r.chance(1, 3) { r.usize(pb.len() + 1) } else { pb.len() };
        exercise_fragment(&pb[..k], m, "path-fragment");
    });

    // Family D: random bytes biased to packet shape by the crate's own helper, plus plain noise
    let n_d: u64 = if miri { if thorough { 1200 } else { 64 } } else if thorough { 3_000_000 * scale } else { 300_000 * scale };
    par_run(mon, args.threads, n_d, |i, m| {
        if !args.mine(i) {
            return;
        }
        let mut r = Rng::fork(args.seed, 0xD0_0000_0000 + i);
        let len = match r.below(4) {
            0 => r.usize(48),
            1 => r.range(36, 200) as usize,
            2 => r.range(36, 1400) as usize,
            _ => *r.pick(&[12usize, 35, 36, 37, 1020, 1024, 9216]),
        };
        let len = if miri { len.min(300) } else { len };
        let mut b = r.bytes(len);
        if r.chance(3, 4) {
            sciparse::util::fuzz::packet_shape::bias_to_packet_shape(&mut b);
        }
        exercise(&b, m, "random");
    });

    {
        let mut r = Rng::fork(args.seed, 3);
        let sh = Shape { path_type: 1, addr_byte: 0x03, seg: [2, 0, 3], curr: 0x41, hdr_len_mode: 0, payload_mode: 2, next_hdr: 17, l4_mode: 3, trunc: 0 };
        let b = build(&sh, &mut r);
        mon.sample_labeled("structured", || json!({"shape": format!("{sh:?}"), "bytes": hex(&b)}));
    }
    mon.note("families", json!({"A_triples": n_a, "A_triple_stride": triple_stride, "B_cross_product": n_b, "C_payload_truncations": n_c, "D_random": n_d}));

    (
        format!(
            "A: segment-length triples of 64^3 (stride {triple_stride}) x 3 pointer variants x address-length nibbles x truncation points; B: complete cross product 256 address type/length bytes x 6 path types x 6 header-length modes x small segment shapes x 7 truncation points ({n_b} cases); C: {n_c} UDP/SCMP payloads at every truncation point + standalone path fragments; D: {n_d} random/packet-shaped byte strings. On each: every pub fn of every view type (crate's exec_every_view_function), Debug/Display, to_model, try_reverse, advance_*, expiration, classification, typed views. distinct = distinct (path type, address byte, segment class, header-length mode, next header, truncation, parsed?) tuples."
        ),
        vec![
            "the deciding oracles for out-of-bounds/uninitialised access are Miri (debug assertions off), ASan and valgrind on these executions; a clean run is not a proof (intra-object overflow is invisible to red zones, hence exact-size allocations)",
            "sciparse::util::fuzz::view_function_checks is the crate's own list of view functions; a view function missing from it is not exercised",
        ],
    )
}
