//! C19 — path combination tolerates arbitrary segment sets from the control plane.
//!
//! Workload: valid reference segment sets are structurally mutated (entries deleted, duplicated,
//! reordered; interface ids zeroed or aliased; peer entries cross-wired; empty / single-entry /
//! oversize segments; MTU 0 and out of range; wildcard ISD-AS; segments in the wrong list) and
//! mixed with random "segment soup"; the real `combine` runs on them through a *counting* entry
//! type (`combine` is generic over `Entry`), so that the work done is measured in `Entry::get`
//! calls — a logical step count, no clock.
//! Oracles: no panic; step count within a polynomial bound of the input size; every returned
//! path encodes, parses back and agrees with its own metadata (interface ids vs hop fields,
//! expiry, endpoints = request); every path obtainable from the valid subset alone is still
//! returned when junk segments are added.

use std::sync::atomic::{AtomicU64, Ordering};

use refbridge::{beacon, gen_topology, ia, to_sciparse_segment};
use refscion::{topo::RTopo, wire::RStdPath};
use sciparse::{
    dataplane_path::view::ScionDpPathViewExt,
    identifier::isd_asn::IsdAsn,
    path::{ScionPath, combinator::combine},
    segment::{AsEntry, Entry, PathSegment, PeerEntry, UnsignedPathSegment},
};
use serde_json::json;
use vmon::{Args, Mon, Rng, catch, hex, par_run};

thread_local! {
    static GETS: std::cell::Cell<u64> = const { std::cell::Cell::new(0) };
}
static TOTAL_GETS: AtomicU64 = AtomicU64::new(0);

/// `AsEntry` wrapper that counts `Entry::get` calls (per thread).
#[derive(Debug, Clone, PartialEq, Eq, PartialOrd, Ord, Hash, serde::Serialize, serde::Deserialize)]
#[serde(transparent)]
pub struct Counted(AsEntry);
impl Entry for Counted {
    fn get(&self) -> &AsEntry {
        GETS.with(|g| g.set(g.get() + 1));
        &self.0
    }
}

fn to_counted(s: &UnsignedPathSegment) -> PathSegment<Counted> {
    // PathSegment has no generic constructor; it is serde-transparent over the entry type
    let v = serde_json::to_value(s).expect("segment serialises");
    serde_json::from_value(v).expect("same shape")
}

fn total_entries(a: &[UnsignedPathSegment], b: &[UnsignedPathSegment]) -> u64 {
    a.iter().chain(b.iter()).map(|s| s.as_entries.len() as u64).sum()
}

fn mutate_segment(r: &mut Rng, s: &mut UnsignedPathSegment, pool: &[IsdAsn]) -> &'static str {
    let n = s.as_entries.len();
    match r.below(18) {
        0 if n > 0 => {
            let i = r.usize(n);
            s.as_entries.remove(i);
            "delete-entry"
        }
        1 if n > 0 => {
            let i = r.usize(n);
            let e = s.as_entries[i].clone();
            let j = r.usize(n + 1);
            s.as_entries.insert(j, e);
            "duplicate-entry"
        }
        2 if n > 1 => {
            r.shuffle(&mut s.as_entries);
            "reorder-entries"
        }
        3 => {
            for e in s.as_entries.iter_mut() {
                e.hop_entry.hop_field.cons_ingress = 0;
                e.hop_entry.hop_field.cons_egress = 0;
            }
            "zero-all-interfaces"
        }
        4 if n > 0 => {
            let i = r.usize(n);
            if r.bool() {
                s.as_entries[i].hop_entry.hop_field.cons_ingress = 0;
            } else {
                s.as_entries[i].hop_entry.hop_field.cons_egress = 0;
            }
            "zero-one-interface"
        }
        5 if n > 0 => {
            let v = r.u16();
            for e in s.as_entries.iter_mut() {
                e.hop_entry.hop_field.cons_ingress = v;
                e.hop_entry.hop_field.cons_egress = v;
            }
            "alias-interfaces"
        }
        6 if n > 0 => {
            let i = r.usize(n);
            let peer = PeerEntry { peer: *r.pick(pool), peer_interface: r.u16(), peer_mtu: r.u16(), hop_field: s.as_entries[i].hop_entry.hop_field.clone() };
            s.as_entries[i].peer_entries.push(peer);
            "cross-wired-peer"
        }
        7 => {
            s.as_entries.clear();
            "empty-segment"
        }
        8 if n > 0 => {
            s.as_entries.truncate(1);
            "single-entry"
        }
        9 if n > 0 => {
            // more than 63 / 64 hops
            let base = s.as_entries.clone();
            while s.as_entries.len() < *r.pick(&[64usize, 65, 70, 130]) {
                s.as_entries.extend(base.iter().cloned());
            }
            "oversize-segment"
        }
        10 if n > 0 => {
            for e in s.as_entries.iter_mut() {
                e.mtu = *r.pick(&[0u32, 65535, 65536, u32::MAX]);
                e.hop_entry.ingress_mtu = *r.pick(&[0u16, 1, 65535]);
            }
            "mtu-out-of-range"
        }
        11 if n > 0 => {
            let i = r.usize(n);
            s.as_entries[i].local = IsdAsn::from_u64(0);
            "wildcard-ia"
        }
        12 if n > 1 => {
            let i = r.usize(n);
            let j = r.usize(n);
            s.as_entries[i].local = s.as_entries[j].local;
            "repeated-as"
        }
        13 if n > 0 => {
            let i = r.usize(n);
            s.as_entries[i].next = *r.pick(pool);
            "wrong-next"
        }
        14 if n > 0 => {
            let i = r.usize(n);
            for p in s.as_entries[i].peer_entries.iter_mut() {
                p.hop_field.cons_ingress = 0;
                p.peer_interface = 0;
            }
            "zero-peer-interfaces"
        }
        15 | 16 => {
            // the same segment announced again with one peer entry missing (the remaining peer
            // entries shift position)
            let with_peers: Vec<usize> = (0..n).filter(|i| !s.as_entries[*i].peer_entries.is_empty()).collect();
            if with_peers.is_empty() {
                return "unchanged";
            }
            let i = *r.pick(&with_peers);
            let k = r.usize(s.as_entries[i].peer_entries.len());
            s.as_entries[i].peer_entries.remove(k);
            "drop-peer-entry"
        }
        _ => "unchanged",
    }
}

/// the structural invariants of a beaconed segment (harness copy of the rule, stated in the
/// property text: repeated ASes, zero / duplicate interface ids, degenerate segments are junk)
fn structurally_ok(s: &UnsignedPathSegment) -> bool {
    let n = s.as_entries.len();
    if n == 0 {
        return false;
    }
    let mut seen = vec![];
    for (i, e) in s.as_entries.iter().enumerate() {
        if e.local.to_u64() == 0 || seen.contains(&e.local) {
            return false;
        }
        seen.push(e.local);
        let h = &e.hop_entry.hop_field;
        if (h.cons_ingress == 0) != (i == 0) || (h.cons_egress == 0) != (i == n - 1) {
            return false;
        }
        if e.peer_entries.iter().any(|p| p.hop_field.cons_ingress == 0 || p.peer_interface == 0) {
            return false;
        }
    }
    true
}

/// interface ids a data-plane path traverses, derived from its hop fields alone
fn derived_interface_ids(p: &RStdPath) -> Vec<u16> {
    let mut out = vec![];
    let nseg = p.n_segments();
    let mut idx = 0usize;
    for s in 0..nseg {
        let info = &p.infos[s];
        let len = p.seg_len[s] as usize;
        for k in 0..len {
            let h = &p.hops[idx + k];
            let (tin, teg) = if info.cons_dir() { (h.cons_in, h.cons_eg) } else { (h.cons_eg, h.cons_in) };
            let first_of_path = s == 0 && k == 0;
            let last_of_path = s == nseg - 1 && k == len - 1;
            let seg_start = k == 0 && s > 0;
            let seg_end = k == len - 1 && s < nseg - 1;
            let use_in = !first_of_path && !(seg_start && !info.peer());
            let use_eg = !last_of_path && !(seg_end && !info.peer());
            if use_in && tin != 0 {
                out.push(tin);
            }
            if use_eg && teg != 0 {
                out.push(teg);
            }
        }
        idx += len;
    }
    out
}

fn check_returned(paths: &[ScionPath], src: IsdAsn, dst: IsdAsn, mon: &mut Mon, rj: &dyn Fn(serde_json::Value) -> serde_json::Value) {
    for p in paths {
        mon.eval();
        mon.count("returned_paths");
        let bytes = p.dp_path().as_slice().to_vec();
        let Some((dp, used)) = RStdPath::decode(&bytes) else {
            mon.violation("returned-path-unparseable", "reference decoder cannot read a returned path", rj(json!({"dp": hex(&bytes)})));
            continue;
        };
        if used != bytes.len() {
            mon.violation("returned-path-trailing-bytes", format!("{} of {} bytes used", used, bytes.len()), rj(json!({"dp": hex(&bytes)})));
        }
        if !(dp.seg_len[0] > 0 && !(dp.seg_len[1] == 0 && dp.seg_len[2] > 0)) || RStdPath::n_hops(dp.seg_len) > 64 {
            mon.violation("returned-path-malformed", format!("segment lengths {:?}", dp.seg_len), rj(json!({"dp": hex(&bytes)})));
        }
        if p.src_ia() != src || p.dst_ia() != dst {
            mon.violation("returned-path-wrong-endpoints", format!("path {}→{} returned for request {src}→{dst}", p.src_ia(), p.dst_ia()), rj(json!({"dp": hex(&bytes)})));
        }
        let Some(md) = p.metadata() else {
            mon.violation("returned-path-no-metadata", "no metadata", rj(json!(null)));
            continue;
        };
        let ifs: Vec<u16> = md.interfaces.as_ref().map(|v| v.iter().map(|i| i.interface.id).collect()).unwrap_or_default();
        let derived = derived_interface_ids(&dp);
        if ifs != derived {
            mon.violation("metadata-interfaces-disagree-with-hop-fields", format!("metadata lists {ifs:?}, the hop fields traverse {derived:?}"), rj(json!({"dp": hex(&bytes)})));
        }
        if ifs.len() % 2 != 0 || ifs.is_empty() {
            mon.violation("metadata-interface-count-odd", format!("{} interface entries", ifs.len()), rj(json!({"dp": hex(&bytes), "interfaces": ifs})));
        }
        if let Some(e) = dp.expiry() {
            if md.expiration != e as u64 || p.expiration() != Some(e) {
                mon.violation("metadata-expiry-disagrees-with-hop-fields", format!("metadata {} / {:?}, hop fields give {e}", md.expiration, p.expiration()), rj(json!({"dp": hex(&bytes)})));
            }
        }
        if let Some(v) = &md.interfaces {
            if let (Some(f), Some(l)) = (v.first(), v.last()) {
                if f.interface.isd_asn != p.src_ia() || l.interface.isd_asn != p.dst_ia() {
                    mon.violation("metadata-endpoints-disagree", "first/last interface AS differ from src/dst", rj(json!({"dp": hex(&bytes)})));
                }
            }
        }
    }
}

fn key_of(p: &ScionPath) -> (Vec<u8>, Vec<(u64, u16)>) {
    (
        p.dp_path().as_slice().to_vec(),
        p.metadata().and_then(|m| m.interfaces.as_ref()).map(|v| v.iter().map(|i| (i.interface.isd_asn.to_u64(), i.interface.id)).collect()).unwrap_or_default(),
    )
}

fn run_counted(src: IsdAsn, dst: IsdAsn, cores: &[UnsignedPathSegment], noncores: &[UnsignedPathSegment]) -> Result<(Vec<ScionPath>, u64), vmon::Panic> {
    let c: Vec<PathSegment<Counted>> = cores.iter().map(to_counted).collect();
    let n: Vec<PathSegment<Counted>> = noncores.iter().map(to_counted).collect();
    GETS.with(|g| g.set(0));
    let r = catch(|| combine(src, dst, c, n));
    let gets = GETS.with(|g| g.get());
    TOTAL_GETS.fetch_add(gets, Ordering::Relaxed);
    r.map(|p| (p, gets))
}

/// polynomial step bound: generous constant × n^4 (n = total AS entries, at least 4)
fn bound(n: u64) -> u64 {
    let n = n.max(4);
    400 * n * n * n * n
}

fn case(t: &RTopo, r: &mut Rng, i: u64, seed: u64, mon: &mut Mon) {
    let base_ts = 1_700_000_000u32;
    let b = beacon(r, t, 5, true, base_ts, true);
    let n_as = t.ases.len();
    let pool: Vec<IsdAsn> = (0..n_as).map(|a| ia(t, a)).collect();
    let pairs = if n_as <= 4 { n_as * (n_as - 1) } else { 8 };
    for _ in 0..pairs {
        let s = r.usize(n_as);
        let mut d = r.usize(n_as);
        if d == s {
            d = (d + 1) % n_as;
        }
        let src = pool[s];
        let dst = pool[d];
        let valid_core: Vec<UnsignedPathSegment> = b.core_segments.iter().map(|x| to_sciparse_segment(t, x)).collect();
        let valid_non: Vec<UnsignedPathSegment> = b.noncore_segments.iter().filter(|x| x.last_as() == s || x.last_as() == d).map(|x| to_sciparse_segment(t, x)).collect();
        // junk: mutated copies of valid segments (also of segments that end elsewhere) + soup
        let mut junk_core: Vec<UnsignedPathSegment> = vec![];
        let mut junk_non: Vec<UnsignedPathSegment> = vec![];
        let mut muts: Vec<&'static str> = vec![];
        let mut junk_desc: Vec<(bool, Vec<&'static str>)> = vec![];
        let all: Vec<UnsignedPathSegment> = b.core_segments.iter().chain(b.noncore_segments.iter()).map(|x| to_sciparse_segment(t, x)).collect();
        let n_core_all = b.core_segments.len();
        let n_junk = r.range(1, 12) as usize;
        for _ in 0..n_junk {
            if all.is_empty() {
                break;
            }
            let pick = r.usize(all.len());
            let mut sgm = all[pick].clone();
            let mut mine = vec![];
            for _ in 0..r.range(1, 3) {
                let m = mutate_segment(r, &mut sgm, &pool);
                muts.push(m);
                mine.push(m);
            }
            // A mutated copy that is still structurally well-formed but carries other hop fields
            // than its original is a *forged* segment (wrong MACs): telling it from a genuine one
            // needs the signatures (C18), not the combinator. Keep only junk that is structurally
            // malformed, or that still carries the original hop fields.
            let hf = |s: &UnsignedPathSegment| s.as_entries.iter().map(|e| (e.local, e.hop_entry.hop_field.clone())).collect::<Vec<_>>();
            if structurally_ok(&sgm) && hf(&sgm) != hf(&all[pick]) {
                continue;
            }
            // a mutated copy stays in the list (core / non-core) its original came from: filing a
            // segment under the wrong kind is not among the faults the property quantifies over
            let as_core = pick < n_core_all;
            junk_desc.push((as_core, mine));
            if as_core { junk_core.push(sgm) } else { junk_non.push(sgm) }
        }
        // random soup
        for _ in 0..r.below(4) {
            let len = r.below(7) as usize;
            let entries: Vec<AsEntry> = (0..len)
                .map(|_| {
                    let mut e = all.first().and_then(|s| s.as_entries.first()).cloned().unwrap_or_else(|| to_sciparse_segment(t, &b.noncore_segments[0]).as_entries[0].clone());
                    e.local = *r.pick(&pool);
                    e.next = *r.pick(&pool);
                    e.hop_entry.hop_field.cons_ingress = if r.chance(1, 4) { 0 } else { r.range(1, 6) as u16 };
                    e.hop_entry.hop_field.cons_egress = if r.chance(1, 4) { 0 } else { r.range(1, 6) as u16 };
                    e.peer_entries.clear();
                    e
                })
                .collect();
            let sg = UnsignedPathSegment::new(base_ts, r.u16(), entries);
            // (a structurally well-formed random segment is a forgery, see above)
            if structurally_ok(&sg) {
                continue;
            }
            if r.bool() { junk_core.push(sg) } else { junk_non.push(sg) }
        }
        muts.sort();
        muts.dedup();
        let rj = |extra: serde_json::Value| json!({"seed": seed, "topology_index": i, "src": s, "dst": d, "mutations": muts, "detail": extra, "topology": crate::c04::topo_json(t)});

        // 1. valid subset alone
        let n0 = total_entries(&valid_core, &valid_non);
        let base = match run_counted(src, dst, &valid_core, &valid_non) {
            Err(pn) => {
                mon.violation(format!("panic:combine:{}", pn.site()), format!("on a valid segment set: {}", pn.0), rj(json!("valid-only")));
                continue;
            }
            Ok((p, gets)) => {
                if gets > bound(n0) {
                    mon.violation("step-bound-exceeded", format!("{gets} Entry::get calls for {n0} entries (bound {})", bound(n0)), rj(json!("valid-only")));
                }
                mon.note("max_gets_ratio_note", json!("gets / n^4 is reported in counters"));
                p
            }
        };
        // 2. with junk
        let mut cores = valid_core.clone();
        cores.extend(junk_core.iter().cloned());
        let mut nons = valid_non.clone();
        nons.extend(junk_non.iter().cloned());
        r.shuffle(&mut cores);
        r.shuffle(&mut nons);
        let n1 = total_entries(&cores, &nons);
        mon.eval();
        mon.count("hostile_sets");
        for m in &muts {
            mon.shape(&("mutation", *m));
        }
        match run_counted(src, dst, &cores, &nons) {
            Err(pn) => mon.violation(format!("panic:combine:{}", pn.site()), format!("mutations {muts:?}: {}", pn.0), rj(json!("with-junk"))),
            Ok((paths, gets)) => {
                mon.count_n("entry_gets", gets);
                if gets > bound(n1) {
                    mon.violation("step-bound-exceeded", format!("{gets} Entry::get calls for {n1} entries (bound {})", bound(n1)), rj(json!("with-junk")));
                }
                check_returned(&paths, src, dst, mon, &rj);
                // A route offered by the valid segments counts as preserved when the result still
                // contains a path over the same interfaces that the reference router forwards to
                // the destination (a copy of the same segment may stand in for the original).
                let forwards = |q: &ScionPath| -> bool {
                    let Some((mut dp, _)) = RStdPath::decode(q.dp_path().as_slice()) else { return false };
                    matches!(refscion::router::walk(t, s, &mut dp, t.ases[d].ia(), base_ts - 3300), refscion::router::WalkEnd::Delivered { at, .. } if at == d)
                };
                for p in &base {
                    let k = key_of(p).1;
                    let still = paths.iter().any(|q| key_of(q).1 == k && forwards(q));
                    if !still {
                        // find a single junk segment that causes the loss on its own
                        let mut culprit: Option<Vec<&'static str>> = None;
                        let (mut ci, mut ni) = (0usize, 0usize);
                        for (as_core, m) in &junk_desc {
                            let mut c1 = valid_core.clone();
                            let mut n1 = valid_non.clone();
                            if *as_core {
                                c1.push(junk_core[ci].clone());
                                ci += 1;
                            } else {
                                n1.push(junk_non[ni].clone());
                                ni += 1;
                            }
                            if let Ok((ps, _)) = run_counted(src, dst, &c1, &n1) {
                                if !ps.iter().any(|q| key_of(q).1 == k && forwards(q)) {
                                    culprit = Some(m.clone());
                                    break;
                                }
                            }
                        }
                        let sig = match &culprit {
                            Some(m) => {
                                let mut m = m.clone();
                                m.sort();
                                m.dedup();
                                format!("valid-route-lost-when-junk-added:{}", m.join("+"))
                            }
                            None => "valid-route-lost-when-junk-added:combination".to_string(),
                        };
                        let twins: Vec<String> = paths.iter().filter(|q| key_of(q).1 == k).map(|q| format!("{} forwards={}", hex(q.dp_path().as_slice()), forwards(q))).collect();
                        mon.violation(sig, format!("a forwardable route built from the valid segments is no longer offered when junk segments are added (culprit {culprit:?})"), rj(json!({"dp": hex(p.dp_path().as_slice()), "interfaces": k, "same_route_in_result": twins, "result_len": paths.len(), "base_len": base.len()})));
                        break;
                    }
                }
                if !base.is_empty() {
                    mon.count("valid_paths_preserved_cases");
                }
            }
        }
    }
}

pub fn run(args: &Args, mon: &mut Mon) -> (String, Vec<&'static str>) {
    mon.floor("hostile_sets", 200);
    mon.floor("returned_paths", 200);
    mon.floor("valid_paths_preserved_cases", 50);
    let thorough = args.thorough();
    let miri = cfg!(miri);
    let scale = args.param_u64("scale", 1);
    let n_topo: u64 = if miri { 2 } else if thorough { 3000 * scale } else { 300 * scale };
    let replay = args.replay.as_ref().map(|p| {
        let v: serde_json::Value = serde_json::from_str(&std::fs::read_to_string(p).expect("replay")).unwrap();
        (v["seed"].as_u64().unwrap(), v["topology_index"].as_u64().unwrap())
    });
    let (seed, range): (u64, Vec<u64>) = match replay {
        Some((s, i)) => (s, vec![i]),
        None => (args.seed, (0..n_topo).collect()),
    };
    par_run(mon, args.threads, range.len() as u64, |k, m| {
        let i = range[k as usize];
        if !args.mine(i) {
            return;
        }
        let mut r = Rng::fork(seed, 0x1900_0000 + i);
        let size = if miri { 0 } else { (i % 4 == 3) as u8 + (i % 16 == 15) as u8 };
        let (t, _) = gen_topology(&mut r, size);
        case(&t, &mut r, i, seed, m);
    });
    // large soup: up to 40 segments of random entries over a 6-AS pool
    let n_soup: u64 = if miri { 1 } else if thorough { 2000 * scale } else { 200 * scale };
    par_run(mon, args.threads, n_soup, |i, m| {
        if !args.mine(i) {
            return;
        }
        let mut r = Rng::fork(seed, 0x1950_0000 + i);
        let (t, _) = gen_topology(&mut r, 1);
        let b = beacon(&mut r, &t, 4, false, 1_700_000_000, true);
        let pool: Vec<IsdAsn> = (0..t.ases.len()).map(|a| ia(&t, a)).collect();
        let template = to_sciparse_segment(&t, &b.noncore_segments[0]).as_entries[0].clone();
        let mk = |r: &mut Rng| {
            let len = r.below(9) as usize;
            let entries: Vec<AsEntry> = (0..len)
                .map(|_| {
                    let mut e = template.clone();
                    e.local = *r.pick(&pool);
                    e.next = *r.pick(&pool);
                    e.hop_entry.hop_field.cons_ingress = r.below(5) as u16;
                    e.hop_entry.hop_field.cons_egress = r.below(5) as u16;
                    e.peer_entries.clear();
                    if r.chance(1, 5) {
                        e.peer_entries.push(PeerEntry { peer: *r.pick(&pool), peer_interface: r.below(5) as u16, peer_mtu: 1400, hop_field: e.hop_entry.hop_field.clone() });
                    }
                    e
                })
                .collect();
            UnsignedPathSegment::new(1_700_000_000, r.u16(), entries)
        };
        let nseg = if miri { 4 } else { r.range(5, 40) as usize };
        let cores: Vec<_> = (0..nseg / 3).map(|_| mk(&mut r)).collect();
        let nons: Vec<_> = (0..nseg - nseg / 3).map(|_| mk(&mut r)).collect();
        let src = pool[0];
        let dst = pool[pool.len() - 1];
        let n = total_entries(&cores, &nons);
        m.eval();
        m.count("soup_sets");
        let rj = |extra: serde_json::Value| json!({"seed": seed, "soup_index": i, "detail": extra});
        match run_counted(src, dst, &cores, &nons) {
            Err(pn) => m.violation(format!("panic:combine:{}", pn.site()), format!("random soup of {nseg} segments: {}", pn.0), rj(json!(null))),
            Ok((paths, gets)) => {
                m.count_n("entry_gets", gets);
                if gets > bound(n) {
                    m.violation("step-bound-exceeded", format!("{gets} Entry::get calls for {n} entries in {nseg} segments (bound {})", bound(n)), rj(json!(null)));
                }
                check_returned(&paths, src, dst, m, &rj);
                m.shape(&("soup", nseg / 5, paths.len().min(10)));
            }
        }
    });
    mon.note("total_entry_gets", json!(TOTAL_GETS.load(Ordering::Relaxed)));
    mon.sample_labeled("hostile-set", || json!({"mutations": ["zero-all-interfaces", "duplicate-entry"], "note": "see replay files for concrete sets"}));
    mon.sample_labeled("soup", || json!({"segments": "5..40 random segments of 0..8 random entries over the topology's ASes"}));

    (
        format!("{n_topo} generated topologies x up to 12 ordered pairs: the valid segment set alone and the valid set + 1..12 structurally mutated segments (16 mutation kinds) + random soup, shuffled; {n_soup} pure soups of 5..40 random segments; combine() runs over a counting Entry type. distinct = distinct mutation kinds and soup size/result classes observed."),
        vec![
            "step bound: 400·n^4 Entry::get calls for n total AS entries (n >= 4) — a logical bound, wall-clock is only a watchdog",
            "consistency of a returned path = its interface-id list equals the non-zero interfaces its hop fields traverse (reference derivation), even count, expiry equal to the hop-field expiry, endpoints equal to the request",
        ],
    )
}
