//! C04 — path combination is sound, complete, loop-free, duplicate-free and ordered; metadata is
//! truthful.  (Also hosts the shared per-topology comparison used by C19.)
//!
//! Workload: reference topologies (refscion::topo) are beaconed by the reference (authentic MACs,
//! varied MTUs / timestamps / SegIDs / expiry units); for every ordered AS pair the real
//! `sciparse::path::combinator::combine` runs on the sciparse form of those segments and its
//! result is compared with the reference enumerator:
//!   * set equality keyed by interface sequence (soundness + completeness), no duplicates, no AS
//!     twice, hop count non-decreasing;
//!   * per path: data-plane bytes == reference bytes, interface list, MTU, expiry (metadata and
//!     `expiration()`), src/dst;
//!   * the reference router (per-AS keys) delivers the path over exactly the listed interfaces,
//!     and the path reversed by the real `try_reverse` carries the reply back;
//!   * the result set is invariant under permutation and duplication of the input lists, and a
//!     duplicated route keeps the later expiry.

use std::collections::{BTreeMap, BTreeSet};

use refbridge::{beacon, gen_topology, ia, to_sciparse_segment};
use refscion::{
    combine::{self, RPathDesc},
    router::{self, WalkEnd},
    topo::{Beaconing, RSegment, RTopo},
    wire::RStdPath,
};
use sciparse::{
    core::view::View,
    dataplane_path::{standard::view::StandardPathView, view::ScionDpPathViewExt},
    path::{ScionPath, combinator::combine as real_combine},
    segment::UnsignedPathSegment,
};
use serde_json::json;
use vmon::{Args, Mon, Rng, catch, hex, par_run};

pub fn topo_json(t: &RTopo) -> serde_json::Value {
    json!({
        "ases": t.ases.iter().map(|a| format!("{}-{:x}{}", a.isd, a.asn, if a.core { " core" } else { "" })).collect::<Vec<_>>(),
        "links": t.links.iter().map(|l| format!("{}#{} {:?} {}#{}{}", l.a, l.a_if, l.kind, l.b, l.b_if, if l.up { "" } else { " DOWN" })).collect::<Vec<_>>(),
    })
}

pub fn iface_key(t: &RTopo, p: &ScionPath) -> Option<Vec<(usize, u16)>> {
    let ifs = p.metadata()?.interfaces.as_ref()?;
    ifs.iter().map(|i| t.as_index(i.interface.isd_asn.to_u64()).map(|a| (a, i.interface.id))).collect()
}

pub struct PairInput<'a> {
    pub src: usize,
    pub dst: usize,
    pub core: Vec<&'a RSegment>,
    pub noncore: Vec<&'a RSegment>,
}

pub fn segments_for_pair<'a>(b: &'a Beaconing, src: usize, dst: usize) -> PairInput<'a> {
    PairInput {
        src,
        dst,
        core: b.core_segments.iter().collect(),
        noncore: b.noncore_segments.iter().filter(|s| s.last_as() == src || s.last_as() == dst).collect(),
    }
}

/// Compare the real combinator with the reference on one AS pair. Returns the real paths.
pub fn check_pair(t: &RTopo, inp: &PairInput, r: &mut Rng, now: u32, mon: &mut Mon, seed_info: &serde_json::Value) {
    let src_ia = ia(t, inp.src);
    let dst_ia = ia(t, inp.dst);
    let cores: Vec<UnsignedPathSegment> = inp.core.iter().map(|s| to_sciparse_segment(t, s)).collect();
    let noncores: Vec<UnsignedPathSegment> = inp.noncore.iter().map(|s| to_sciparse_segment(t, s)).collect();
    let core_owned: Vec<RSegment> = inp.core.iter().map(|s| (*s).clone()).collect();
    let non_owned: Vec<RSegment> = inp.noncore.iter().map(|s| (*s).clone()).collect();
    // all loop-free candidates; several may share one interface sequence (same route offered by
    // different segments / construction directions)
    let reference = combine::enumerate(t, inp.src, inp.dst, &core_owned, &non_owned);
    mon.eval();
    mon.count("pairs");
    let rj = |extra: serde_json::Value| {
        let mut v = seed_info.clone();
        v["src"] = json!(inp.src);
        v["dst"] = json!(inp.dst);
        v["topology"] = topo_json(t);
        v["detail"] = extra;
        v
    };
    let real = match catch(|| real_combine(src_ia, dst_ia, cores.clone(), noncores.clone())) {
        Err(pn) => {
            mon.violation(format!("panic:combine:{}", pn.site()), pn.0, rj(json!(null)));
            return;
        }
        Ok(p) => p,
    };
    if !reference.is_empty() {
        mon.count("pairs_with_paths");
    }

    let mut real_by_key: BTreeMap<Vec<(usize, u16)>, Vec<&ScionPath>> = BTreeMap::new();
    let mut last_links = 0usize;
    for p in &real {
        mon.eval();
        mon.count("real_paths");
        let Some(k) = iface_key(t, p) else {
            mon.violation("path-without-interfaces", "combine returned a path without interface metadata / unknown AS", rj(json!(null)));
            continue;
        };
        let links = k.len() / 2;
        if links < last_links {
            mon.violation("not-cheapest-first", format!("a path with {links} links follows one with {last_links}"), rj(json!({"interfaces": k})));
        }
        last_links = links;
        // loop-free: an AS appears at most once (as consecutive in/out pair)
        let mut seen: Vec<usize> = vec![];
        for (i, (a, _)) in k.iter().enumerate() {
            let new_as = i == 0 || k[i - 1].0 != *a;
            if new_as {
                if seen.contains(a) {
                    mon.violation("loop", format!("AS index {a} is visited twice"), rj(json!({"interfaces": k})));
                }
                seen.push(*a);
            }
        }
        if p.src_ia() != src_ia || p.dst_ia() != dst_ia {
            mon.violation("wrong-endpoints", format!("path {}→{} for request {src_ia}→{dst_ia}", p.src_ia(), p.dst_ia()), rj(json!({"interfaces": k})));
        }
        real_by_key.entry(k).or_default().push(p);
    }
    let mut ref_by_key: BTreeMap<Vec<(usize, u16)>, Vec<&RPathDesc>> = BTreeMap::new();
    for p in &reference {
        ref_by_key.entry(p.interfaces()).or_default().push(p);
    }
    for (k, cands) in &ref_by_key {
        let rp = cands[0];
        mon.shape(&("kind", rp.kind.as_str(), rp.hops.len().min(8)));
        mon.count(&format!("kind:{}", rp.kind.split(':').next_back().unwrap_or("x")));
        if rp.dp.seg_len[2] > 0 {
            mon.count("kind:three-segment");
        }
        match real_by_key.get(k) {
            None => mon.violation(
                format!("missing-path:{}", rp.kind),
                format!("obtainable path ({}) not returned: interfaces {:?}", rp.kind, k),
                rj(json!({"interfaces": k, "kind": rp.kind})),
            ),
            Some(ps) => {
                // every returned path with this interface sequence must be one of the candidates
                for p in ps {
                    let bytes = p.dp_path().as_slice().to_vec();
                    let cand = cands.iter().find(|c| c.dp.encode() == bytes).copied();
                    check_one(t, inp, cand.unwrap_or(rp), cand.is_some(), p, now, mon, &rj);
                    // "keep the latest expiry": among candidates that encode the same hop-field
                    // interfaces (identical route *and* identical hop fields up to MAC/timestamp),
                    // the returned one must be the one expiring last
                    if let Some(c) = cand {
                        let enc = |d: &RPathDesc| d.dp.hops.iter().map(|h| (h.cons_in, h.cons_eg)).collect::<Vec<_>>();
                        let best = cands.iter().filter(|o| enc(o) == enc(c)).map(|o| o.expiry).max().unwrap();
                        if c.expiry < best {
                            mon.violation("duplicate-keeps-earlier-expiry", format!("route offered twice: returned expiry {}, a later one ({best}) was available", c.expiry), rj(json!({"interfaces": k})));
                        }
                    }
                }
                if ps.len() > 1 {
                    // the same route returned more than once: classify how the copies differ
                    let (Some((a, _)), Some((b, _))) = (RStdPath::decode(ps[0].dp_path().as_slice()), RStdPath::decode(ps[1].dp_path().as_slice())) else { continue };
                    let flags = |p: &RStdPath| p.infos.iter().map(|i| i.flags & 1).collect::<Vec<_>>();
                    let ifs = |p: &RStdPath| p.hops.iter().map(|h| (h.cons_in, h.cons_eg)).collect::<Vec<_>>();
                    let reason = if flags(&a) != flags(&b) {
                        "core-segment-in-both-construction-directions"
                    } else if ifs(&a) != ifs(&b) {
                        "differs-only-in-unused-interface-of-shortcut-hop"
                    } else {
                        "identical-hop-interfaces"
                    };
                    mon.violation(
                        format!("duplicate-route:{reason}"),
                        format!("{} returned paths share the interface sequence {:?} ({reason})", ps.len(), k),
                        rj(json!({"interfaces": k, "copies": ps.len()})),
                    );
                }
            }
        }
    }
    for k in real_by_key.keys() {
        if !ref_by_key.contains_key(k) {
            mon.violation("extra-path", format!("returned path is not obtainable by the combination rules: {k:?}"), rj(json!({"interfaces": k})));
        }
    }

    // permutation / duplication invariance (sampled)
    if !real.is_empty() && r.chance(1, 3) {
        mon.eval();
        let mut c2 = cores.clone();
        let mut n2 = noncores.clone();
        r.shuffle(&mut c2);
        r.shuffle(&mut n2);
        // duplicate a segment verbatim
        if !n2.is_empty() {
            let d = n2[r.usize(n2.len())].clone();
            n2.push(d);
        }
        if !c2.is_empty() {
            let d = c2[r.usize(c2.len())].clone();
            c2.insert(0, d);
        }
        match catch(|| real_combine(src_ia, dst_ia, c2, n2)) {
            Err(pn) => mon.violation(format!("panic:combine:{}", pn.site()), pn.0, rj(json!("permuted"))),
            Ok(p2) => {
                let k1: BTreeSet<_> = real.iter().filter_map(|p| iface_key(t, p)).collect();
                let k2: BTreeSet<_> = p2.iter().filter_map(|p| iface_key(t, p)).collect();
                if k1 != k2 || p2.len() != real.len() {
                    mon.violation("order-dependent-result", format!("{} paths before, {} after permuting/duplicating the input lists", real.len(), p2.len()), rj(json!(null)));
                }
                mon.count("permutations");
            }
        }
        // same route beaconed again with a later timestamp: the later expiry must win
        if let Some(orig) = inp.noncore.first() {
            let mut later = (*orig).clone();
            // re-beacon: same route, timestamp + 600 s (MACs recomputed by the reference)
            let ases: Vec<usize> = later.entries.iter().map(|e| e.as_idx).collect();
            let route: Vec<usize> = (0..ases.len() - 1)
                .map(|i| t.links.iter().position(|l| (l.a == ases[i] && l.a_if == later.entries[i].cons_eg) || (l.b == ases[i] && l.b_if == later.entries[i].cons_eg)).unwrap())
                .collect();
            let exps: Vec<u8> = later.entries.iter().map(|e| e.exp).collect();
            let mut k = 0usize;
            let mut expf = move || {
                let v = exps[k % exps.len()];
                k += 1;
                v
            };
            let mut bp = refscion::topo::BeaconParams { timestamp: later.timestamp.saturating_add(600), seg_id: later.seg_id ^ 0x55aa, exp: &mut expf, with_peers: false };
            later = refscion::topo::build_segment(t, &ases, &route, false, &mut bp);
            let mut n3 = noncores.clone();
            let which_first = r.bool();
            if which_first {
                n3.insert(0, to_sciparse_segment(t, &later));
            } else {
                n3.push(to_sciparse_segment(t, &later));
            }
            let mut non3 = non_owned.clone();
            non3.push(later);
            let ref3 = combine::enumerate(t, inp.src, inp.dst, &core_owned, &non3);
            if let Ok(p3) = catch(|| real_combine(src_ia, dst_ia, cores.clone(), n3)) {
                // latest expiry per (route, hop-field interface encoding)
                let mut want: BTreeMap<(Vec<(usize, u16)>, Vec<(u16, u16)>), u32> = BTreeMap::new();
                for c in &ref3 {
                    let e = want.entry((c.interfaces(), c.dp.hops.iter().map(|h| (h.cons_in, h.cons_eg)).collect())).or_insert(0);
                    *e = (*e).max(c.expiry);
                }
                for p in &p3 {
                    if let (Some(k), Some(e), Some((d, _))) = (iface_key(t, p), p.expiration(), RStdPath::decode(p.dp_path().as_slice())) {
                        if let Some(w) = want.get(&(k.clone(), d.hops.iter().map(|h| (h.cons_in, h.cons_eg)).collect())) {
                            if *w != e {
                                mon.violation("duplicate-keeps-earlier-expiry", format!("route offered twice: kept expiry {e}, the later one is {w}"), rj(json!({"interfaces": k, "later_segment_first": which_first})));
                            }
                        }
                    }
                }
                mon.count("expiry_duplicates");
            }
        }
    }
}

fn check_one(t: &RTopo, inp: &PairInput, rp: &RPathDesc, is_candidate: bool, p: &ScionPath, now: u32, mon: &mut Mon, rj: &dyn Fn(serde_json::Value) -> serde_json::Value) {
    let k = rp.interfaces();
    let real_bytes = p.dp_path().as_slice().to_vec();
    let ref_bytes = rp.dp.encode();
    let _ = is_candidate;
    let info = |what: &str| json!({"interfaces": k, "kind": rp.kind, "what": what, "real_dp": hex(&real_bytes), "ref_dp": hex(&ref_bytes)});
    let mut bytes_equal = true;
    if real_bytes != ref_bytes {
        bytes_equal = false;
        // which part differs: SegID, flags, hop order…
        let at = real_bytes.iter().zip(ref_bytes.iter()).position(|(a, b)| a != b).unwrap_or(real_bytes.len().min(ref_bytes.len()));
        let ni = RStdPath::n_infos(rp.dp.seg_len);
        let part = if real_bytes.len() != ref_bytes.len() {
            "length"
        } else if at < 4 {
            "meta"
        } else if at < 4 + 8 * ni {
            match (at - 4) % 8 {
                0 => "info-flags",
                2 | 3 => "info-segid",
                4..=7 => "info-timestamp",
                _ => "info-rsv",
            }
        } else {
            match (at - 4 - 8 * ni) % 12 {
                0 => "hop-flags",
                1 => "hop-exptime",
                2..=5 => "hop-interfaces",
                _ => "hop-mac",
            }
        };
        mon.violation(
            format!("dataplane-bytes-differ:{part}:{}", rp.kind),
            format!("combined path bytes differ from the reference construction at byte {at} ({part}) for a {} path", rp.kind),
            rj(info("dp")),
        );
    }
    if let Some(md) = p.metadata() {
        if md.mtu != rp.mtu {
            mon.violation(format!("mtu-wrong:{}", rp.kind), format!("metadata MTU {} but the minimum over traversed ASes and links is {}", md.mtu, rp.mtu), rj(info("mtu")));
        }
        if md.expiration != rp.expiry as u64 || p.expiration() != Some(rp.expiry) {
            mon.violation(
                format!("expiry-wrong:{}", rp.kind),
                format!("metadata expiration {} / expiration() {:?}, earliest hop expiry is {}", md.expiration, p.expiration(), rp.expiry),
                rj(info("expiry")),
            );
        }
    }
    // forwardability with per-AS keys over exactly the listed interfaces (reference router on
    // the *real* bytes), then the reply over the real reversal
    mon.eval();
    let Some((mut dp, _)) = RStdPath::decode(&real_bytes) else {
        mon.violation("unparseable-dp", "reference decoder cannot read the combined path", rj(info("decode")));
        return;
    };
    let dst_ia = t.ases[inp.dst].ia();
    match router::walk(t, inp.src, &mut dp, dst_ia, now) {
        WalkEnd::Delivered { at, trail } if at == inp.dst => {
            let want: Vec<(usize, u16, u16)> = rp.hops.iter().map(|h| (h.as_idx, h.in_if, h.eg_if)).collect();
            if trail != want {
                mon.violation(format!("forwarded-over-other-interfaces:{}", rp.kind), format!("walked {trail:?}, metadata says {want:?}"), rj(info("trail")));
            }
            mon.count("forwarded");
            // reply
            let mut delivered = dp.encode();
            let rev = catch(|| StandardPathView::try_from_mut_slice(&mut delivered).unwrap().0.try_reverse().is_ok());
            if !matches!(rev, Ok(true)) {
                mon.violation("delivered-path-not-reversible", format!("{rev:?}"), rj(info("reverse")));
                return;
            }
            let (mut back, _) = RStdPath::decode(&delivered).unwrap();
            match router::walk(t, inp.dst, &mut back, t.ases[inp.src].ia(), now) {
                WalkEnd::Delivered { at, .. } if at == inp.src => mon.count("replied"),
                other => mon.violation(
                    format!("reverse-path-not-forwardable:{}", rp.kind),
                    format!("reply over the reversed path ended {other:?}"),
                    rj(info("reverse-walk")),
                ),
            }
        }
        other => {
            if bytes_equal {
                // real == reference bytes but the reference router refuses: the reference is
                // inconsistent with itself — a harness problem, not a finding
                mon.inconclusive(format!("harness: reference router rejects a reference-built {} path: {other:?}", rp.kind));
            } else {
                mon.violation(format!("not-forwardable:{}", rp.kind), format!("reference router: {other:?}"), rj(info("walk")));
            }
        }
    }
}

pub fn run(args: &Args, mon: &mut Mon) -> (String, Vec<&'static str>) {
    mon.floor("pairs_with_paths", 50);
    mon.floor("forwarded", 100);
    mon.floor("replied", 100);
    mon.floor("kind:shortcut", 1);
    mon.floor("kind:peer", 1);
    mon.floor("kind:onpath", 1);
    mon.floor("kind:inverted", 1);
    mon.floor("kind:three-segment", 1);
    mon.floor("permutations", 10);
    let thorough = args.thorough();
    let miri = cfg!(miri);
    let scale = args.param_u64("scale", 1);

    let n_topo: u64 = if miri { args.param_u64("n", 2) } else if thorough { 4000 * scale } else { 250 * scale };
    let replay_idx = args.replay.as_ref().map(|p| {
        let v: serde_json::Value = serde_json::from_str(&std::fs::read_to_string(p).expect("replay")).unwrap();
        (v["seed"].as_u64().unwrap(), v["topology_index"].as_u64().unwrap())
    });
    let (seed, range): (u64, Vec<u64>) = match replay_idx {
        Some((s, i)) => (s, vec![i]),
        None => (args.seed, (0..n_topo).collect()),
    };
    par_run(mon, args.threads, range.len() as u64, |k, m| {
        let i = range[k as usize];
        if !args.mine(i) {
            return;
        }
        let mut r = Rng::fork(seed, 0x0400_0000 + i);
        let size = if miri { 0 } else { (i % 10 >= 5) as u8 + (i % 10 >= 9) as u8 };
        let (t, gp) = gen_topology(&mut r, size);
        let base_ts = 1_700_000_000u32;
        let b = beacon(&mut r, &t, if size == 2 { 5 } else { 6 }, i % 2 == 0, base_ts, true);
        m.count("topologies");
        let info = json!({"seed": seed, "topology_index": i, "gen": format!("{gp:?}")});
        let n = t.ases.len();
        // cap the number of pairs for big topologies
        let mut pairs: Vec<(usize, usize)> = (0..n).flat_map(|a| (0..n).map(move |b| (a, b))).filter(|(a, b)| a != b).collect();
        if size == 2 && !thorough {
            r.shuffle(&mut pairs);
            pairs.truncate(40);
        }
        for (s, d) in pairs {
            let inp = segments_for_pair(&b, s, d);
            check_pair(&t, &inp, &mut r, base_ts - 3300, m, &info);
        }
        if i < 2 {
            m.sample(|| json!({"topology": topo_json(&t), "core_segments": b.core_segments.len(), "noncore_segments": b.noncore_segments.len()}));
        }
    });

    (
        format!(
            "{n_topo} generated topologies (50% tiny: 1 ISD, <=2 cores, <=3 non-core; 40% small; 10% medium with 2-3 ISDs; parallel links, multi-parent DAGs, peering links, two interface numberings incl. 1 and 65535), fully beaconed by the reference with varied MTU/timestamp/SegID/ExpTime on even indices; every ordered AS pair combined by the real combinator and by the reference enumerator; each returned path compared (set, order, bytes, metadata), walked hop by hop by the reference router with per-AS keys, reversed with the real try_reverse and walked back; permutation/duplication/re-beaconing invariance sampled. distinct = distinct (path kind, hop count) classes observed."
        ),
        vec![
            "reference beaconing, combination rules and border-router processing in harness/refscion/src/{topo,combine,router}.rs (written from the SCION control-/data-plane specifications and the published behaviour of the reference router)",
            "completeness is relative to these combination rules; exact order among equally long paths is not asserted",
        ],
    )
}
