//! C18 — signed control-plane messages verify iff authentic; RPC conversion is lossless.
//!
//! Provenance oracle (no cryptography in the oracle): the harness knows exactly which bytes each
//! entry was signed over (its own header‖body, the segment info, all preceding entries' header‖
//! body and signature) and with which key. After any tampering at the RPC (protobuf) boundary it
//! therefore knows, per entry, whether what the verifier is now shown still equals what was signed.
//! Expectation: `validate_signature` is Ok exactly for the entries whose signed material, position
//! and key are untouched.

use std::collections::BTreeMap;

use refbridge::{beacon, gen_topology, ia, to_sciparse_segment};
use sciparse::{
    dataplane_path::view::ScionDpPathViewExt,
    identifier::isd_asn::IsdAsn,
    path::{ScionPath, combinator::combine},
    reexport::{
        p256::ecdsa::{SigningKey, VerifyingKey},
        prost::Message,
        protobuf::{
            control_plane::v1 as cp,
            crypto::v1 as cr,
            daemon::v1 as dm,
        },
    },
    segment::{AsEntry, EntryKeyInfo, SignedPathSegment},
    signed_message::ValidateError,
};
use serde_json::json;
use vmon::{Args, Mon, Rng, catch, hex, par_run};

fn key_for(seed: u64, ia: u64, salt: u64) -> SigningKey {
    let mut r = Rng::fork(seed ^ ia, 0x4b45 + salt);
    loop {
        let b = r.bytes(32);
        if let Ok(k) = SigningKey::from_slice(&b) {
            return k;
        }
    }
}

struct Built {
    seg: SignedPathSegment,
    keys: BTreeMap<u64, SigningKey>,
}

fn build(r: &mut Rng, seed: u64, topo_idx: u64) -> Option<Built> {
    let (t, _) = gen_topology(r, 1);
    let b = beacon(r, &t, 5, true, 1_700_000_000, true);
    let cands: Vec<_> = b.noncore_segments.iter().filter(|s| s.entries.len() >= 2).collect();
    if cands.is_empty() {
        return None;
    }
    // prefer long segments and segments with peers
    let mut best = cands[r.usize(cands.len())];
    for _ in 0..6 {
        let c = cands[r.usize(cands.len())];
        if c.entries.len() + c.entries.iter().map(|e| e.peers.len()).sum::<usize>() > best.entries.len() + best.entries.iter().map(|e| e.peers.len()).sum::<usize>() {
            best = c;
        }
    }
    let us = to_sciparse_segment(&t, best);
    let mut keys = BTreeMap::new();
    for e in &us.as_entries {
        keys.insert(e.local.to_u64(), key_for(seed, e.local.to_u64(), topo_idx));
    }
    let mut entries: Vec<AsEntry> = us.as_entries.clone();
    // in a third of the segments the peer hop fields carry values of their own (egress, expiry)
    // instead of mirroring the entry's regular hop field: what is signed is what was given
    if topo_idx % 3 == 1 {
        for e in entries.iter_mut() {
            for p in e.peer_entries.iter_mut() {
                p.hop_field.cons_egress = p.hop_field.cons_egress.wrapping_add(1 + (r.u16() % 500));
                if r.bool() {
                    p.hop_field.expiration_units = p.hop_field.expiration_units.wrapping_add(1 + r.u8() % 7);
                }
            }
        }
    }
    let kp = |ia: IsdAsn| {
        Some(EntryKeyInfo {
            key: keys.get(&ia.to_u64())?.clone(),
            key_id: Some(cp::VerificationKeyId { isd_as: ia.to_u64(), subject_key_id: vec![1, 2, 3], trc_base: 1, trc_serial: 1 }),
            mac_key: [7u8; 16],
        })
    };
    // boundary values of the segment information (0/0 encodes to zero bytes in proto3)
    let (ts, sid) = match topo_idx % 6 {
        0 => (0u32, 0u16),
        1 => (u32::MAX, u16::MAX),
        2 => (0, 7),
        3 => (1, 0),
        _ => (us.info().timestamp, us.info().segment_id),
    };
    let seg = SignedPathSegment::new(ts, sid, entries, kp).ok()?;
    let _ = ia;
    Some(Built { seg, keys })
}

fn verifier<'a>(keys: &'a BTreeMap<u64, VerifyingKey>) -> impl Fn(&[u8]) -> Result<VerifyingKey, ValidateError> + 'a {
    move |kid: &[u8]| {
        let id = cp::VerificationKeyId::decode(kid).map_err(|_| ValidateError::InvalidHeader)?;
        keys.get(&id.isd_as).cloned().ok_or(ValidateError::InvalidHeader)
    }
}

/// validate every entry of an RPC segment; None = conversion refused (counts as "all rejected")
fn validate_rpc(rpc: &cp::PathSegment, keys: &BTreeMap<u64, VerifyingKey>) -> Result<Option<Vec<bool>>, vmon::Panic> {
    catch(|| {
        let seg = SignedPathSegment::try_from_rpc(rpc.clone()).ok()?;
        Some(seg.as_entries.iter().map(|e| e.validate_signature(verifier(keys), &seg).is_ok()).collect())
    })
}

#[derive(Debug, Clone)]
enum Tamper {
    FlipInfo(usize),
    FlipBody(usize, usize),
    FlipSig(usize, usize),
    /// append an unknown protobuf field to the segment info bytes (decodes to the same values)
    InfoUnknownField,
    /// re-encode the segment info with a non-minimal varint
    InfoNonCanonicalVarint,
    Swap(usize, usize),
    Truncate(usize),
    /// append a copy of entry i at the end
    ReplayEntry(usize),
    /// insert a copy of entry i right after itself
    DuplicateInPlace(usize),
    DropEntry(usize),
    /// verifier resolves another key for AS of entry i
    KeySubstitute(usize),
}

fn apply(rpc: &mut cp::PathSegment, t: &Tamper) {
    let flip = |v: &mut Vec<u8>, bit: usize| {
        if !v.is_empty() {
            let b = bit % (v.len() * 8);
            v[b / 8] ^= 0x80 >> (b % 8);
        }
    };
    match t {
        Tamper::FlipInfo(b) => flip(&mut rpc.segment_info, *b),
        Tamper::FlipBody(i, b) => flip(&mut rpc.as_entries[*i].signed.as_mut().unwrap().header_and_body, *b),
        Tamper::FlipSig(i, b) => flip(&mut rpc.as_entries[*i].signed.as_mut().unwrap().signature, *b),
        Tamper::InfoUnknownField => rpc.segment_info.extend_from_slice(&[0x78, 0x01]), // field 15, varint 1
        Tamper::InfoNonCanonicalVarint => {
            // segment_id (field 2, varint): rewrite its last byte b as (b|0x80, 0x00)
            if let Some(last) = rpc.segment_info.pop() {
                rpc.segment_info.push(last | 0x80);
                rpc.segment_info.push(0x00);
            }
        }
        Tamper::Swap(i, j) => rpc.as_entries.swap(*i, *j),
        Tamper::Truncate(n) => rpc.as_entries.truncate(*n),
        Tamper::ReplayEntry(i) => {
            let e = rpc.as_entries[*i].clone();
            rpc.as_entries.push(e);
        }
        Tamper::DuplicateInPlace(i) => {
            let e = rpc.as_entries[*i].clone();
            rpc.as_entries.insert(*i + 1, e);
        }
        Tamper::DropEntry(i) => {
            rpc.as_entries.remove(*i);
        }
        Tamper::KeySubstitute(_) => {}
    }
}

/// Which entries of the tampered message are still exactly what was signed (same bytes, same
/// position, same preceding material, same info bytes, same key)? Computed from the original and
/// the tampered RPC messages only.
fn expected(orig: &cp::PathSegment, tampered: &cp::PathSegment, key_changed: Option<u64>) -> Vec<bool> {
    let info_same = orig.segment_info == tampered.segment_info;
    let mut prefix_same = true;
    let mut out = vec![];
    for (i, e) in tampered.as_entries.iter().enumerate() {
        let same_here = orig.as_entries.get(i).map(|o| o.signed == e.signed).unwrap_or(false);
        let ok = info_same && prefix_same && same_here;
        // key substitution: entries of that AS fail; later entries are unaffected (they are signed
        // over bytes, not keys)
        let key_ok = match key_changed {
            None => true,
            Some(ia) => {
                let hb = cr::HeaderAndBodyInternal::decode(e.signed.as_ref().unwrap().header_and_body.as_slice()).ok();
                let body = hb.and_then(|h| cp::AsEntrySignedBody::decode(h.body.as_slice()).ok());
                body.map(|b| b.isd_as != ia).unwrap_or(true)
            }
        };
        out.push(ok && key_ok);
        prefix_same = prefix_same && same_here;
    }
    out
}

fn check_segment(b: &Built, r: &mut Rng, thorough: bool, info: serde_json::Value, mon: &mut Mon) {
    let pubkeys: BTreeMap<u64, VerifyingKey> = b.keys.iter().map(|(k, v)| (*k, VerifyingKey::from(v))).collect();
    let orig = b.seg.clone().into_rpc();
    let n = orig.as_entries.len();
    let rj = |t: &str, extra: serde_json::Value| json!({"segment": info, "tamper": t, "entries": n, "detail": extra, "rpc": hex(&orig.encode_to_vec())});

    // ---- untouched: every entry validates; conversions are lossless
    mon.eval();
    match validate_rpc(&orig, &pubkeys) {
        Err(pn) => {
            mon.violation(format!("panic:validate:{}", pn.site()), pn.0, rj("none", json!(null)));
            return;
        }
        Ok(None) => {
            mon.violation("authentic-segment-conversion-refused", "try_from_rpc rejects a segment produced by into_rpc", rj("none", json!(null)));
            return;
        }
        Ok(Some(v)) => {
            if v.iter().any(|x| !x) {
                mon.violation("authentic-entry-rejected", format!("untouched segment: validation results {v:?}"), rj("none", json!(null)));
                return;
            }
            mon.count("authentic_segments");
        }
    }
    match catch(|| SignedPathSegment::try_from_rpc(orig.clone()).map(|s| (s.clone() == b.seg, s.into_rpc() == orig))) {
        Ok(Ok((true, true))) => mon.count("rpc_roundtrips"),
        other => mon.violation("segment-rpc-roundtrip", format!("value→rpc→value / rpc→value→rpc identity failed: {other:?}"), rj("none", json!(null))),
    }

    // ---- tampering
    let mut tampers: Vec<Tamper> = vec![Tamper::InfoUnknownField, Tamper::InfoNonCanonicalVarint];
    let info_bits = orig.segment_info.len() * 8;
    for bit in 0..info_bits {
        tampers.push(Tamper::FlipInfo(bit));
    }
    for i in 0..n {
        let hb = orig.as_entries[i].signed.as_ref().unwrap().header_and_body.len() * 8;
        let sg = orig.as_entries[i].signed.as_ref().unwrap().signature.len() * 8;
        if thorough {
            for bit in 0..hb {
                tampers.push(Tamper::FlipBody(i, bit));
            }
            for bit in 0..sg {
                tampers.push(Tamper::FlipSig(i, bit));
            }
        } else {
            for _ in 0..24 {
                tampers.push(Tamper::FlipBody(i, r.usize(hb)));
            }
            for _ in 0..12 {
                tampers.push(Tamper::FlipSig(i, r.usize(sg)));
            }
        }
        tampers.push(Tamper::ReplayEntry(i));
        tampers.push(Tamper::DuplicateInPlace(i));
        tampers.push(Tamper::DropEntry(i));
        tampers.push(Tamper::KeySubstitute(i));
        tampers.push(Tamper::Truncate(i));
        for j in i + 1..n {
            tampers.push(Tamper::Swap(i, j));
        }
    }
    for t in tampers {
        mon.eval();
        mon.count("tampered_cases");
        let mut rpc = orig.clone();
        apply(&mut rpc, &t);
        let mut keys = pubkeys.clone();
        let mut key_changed = None;
        if let Tamper::KeySubstitute(i) = &t {
            let ia = b.seg.as_entries[*i].entry().local.to_u64();
            keys.insert(ia, VerifyingKey::from(&key_for(0xdead, ia, 99)));
            key_changed = Some(ia);
        }
        if rpc == orig && key_changed.is_none() {
            continue;
        }
        let want = expected(&orig, &rpc, key_changed);
        let kind = match &t {
            Tamper::FlipInfo(_) => "flip-segment-info",
            Tamper::FlipBody(..) => "flip-header-body",
            Tamper::FlipSig(..) => "flip-signature",
            Tamper::InfoUnknownField => "segment-info-unknown-field",
            Tamper::InfoNonCanonicalVarint => "segment-info-noncanonical-varint",
            Tamper::Swap(..) => "swap-entries",
            Tamper::Truncate(_) => "truncate",
            Tamper::ReplayEntry(_) => "replay-entry-at-end",
            Tamper::DuplicateInPlace(_) => "duplicate-entry-in-place",
            Tamper::DropEntry(_) => "drop-entry",
            Tamper::KeySubstitute(_) => "key-substitution",
        };
        mon.shape(&("tamper", kind, n.min(6)));
        match validate_rpc(&rpc, &keys) {
            Err(pn) => mon.violation(format!("panic:validate:{}", pn.site()), format!("{t:?}: {}", pn.0), rj(kind, json!(format!("{t:?}")))),
            // conversion refused: every entry counts as rejected — fine unless everything was
            // still authentic (cannot happen: rpc != orig)
            Ok(None) => mon.count("tampered_conversion_refused"),
            Ok(Some(got)) => {
                for (i, (g, w)) in got.iter().zip(want.iter()).enumerate() {
                    if *g && !*w {
                        mon.violation(
                            format!("forged-entry-validates:{kind}"),
                            format!("{t:?}: entry {i} of {} validates although what it was signed over has changed", got.len()),
                            rj(kind, json!({"tamper": format!("{t:?}"), "entry": i, "got": got, "expected": want})),
                        );
                        break;
                    }
                    if !*g && *w {
                        mon.violation(
                            format!("authentic-entry-rejected:{kind}"),
                            format!("{t:?}: entry {i} is untouched (same bytes, position, predecessors, key) but fails"),
                            rj(kind, json!({"tamper": format!("{t:?}"), "entry": i, "got": got, "expected": want})),
                        );
                        break;
                    }
                }
            }
        }
    }
}

// ---------------------------------------------------------------------------------------------
// RPC totality and path round trips

fn rand_hopfield(r: &mut Rng) -> cp::HopField {
    cp::HopField {
        ingress: *r.pick(&[0u64, 1, 65535, 65536, u64::MAX]),
        egress: *r.pick(&[0u64, 7, 65535, 70000, u64::MAX]),
        exp_time: *r.pick(&[0u32, 255, 256, u32::MAX]),
        mac: r.bytes_pick(&[0usize, 5, 6, 6, 6, 7, 16]),
    }
}

fn rand_rpc_segment(r: &mut Rng) -> cp::PathSegment {
    let n = r.below(5) as usize;
    let as_entries = (0..n)
        .map(|_| {
            let body = cp::AsEntrySignedBody {
                isd_as: r.u64(),
                next_isd_as: r.u64(),
                hop_entry: if r.chance(1, 6) { None } else { Some(cp::HopEntry { hop_field: if r.chance(1, 6) { None } else { Some(rand_hopfield(r)) }, ingress_mtu: *r.pick(&[0u32, 1400, 65535, 65536, u32::MAX]) }) },
                peer_entries: (0..r.below(3))
                    .map(|_| cp::PeerEntry { peer_isd_as: r.u64(), peer_interface: *r.pick(&[0u64, 9, 65536]), peer_mtu: *r.pick(&[0u32, 1400, 70000]), hop_field: if r.chance(1, 5) { None } else { Some(rand_hopfield(r)) } })
                    .collect(),
                mtu: r.u32(),
                extensions: None,
            };
            let hb = if r.chance(1, 8) { r.bytes_upto(40) } else { cr::HeaderAndBodyInternal { header: if r.bool() { r.bytes_upto(30) } else { cr::Header::default().encode_to_vec() }, body: if r.chance(1, 8) { r.bytes_upto(30) } else { body.encode_to_vec() } }.encode_to_vec() };
            cp::AsEntry { signed: if r.chance(1, 8) { None } else { Some(cr::SignedMessage { header_and_body: hb, signature: r.bytes_upto(80) }) }, unsigned: None }
        })
        .collect();
    let info = if r.chance(1, 6) { r.bytes_upto(12) } else { cp::SegmentInformation { timestamp: *r.pick(&[0i64, -1, 1_700_000_000, u32::MAX as i64, u32::MAX as i64 + 1, i64::MIN]), segment_id: *r.pick(&[0u32, 65535, 65536, u32::MAX]) }.encode_to_vec() };
    cp::PathSegment { segment_info: info, as_entries }
}

fn rand_rpc_path(r: &mut Rng, valid_raw: &[u8]) -> dm::Path {
    let n_if = *r.pick(&[0usize, 1, 2, 3, 4, 6]);
    dm::Path {
        raw: match r.below(4) {
            0 => vec![],
            1 => r.bytes_upto(60),
            2 => {
                let mut v = valid_raw.to_vec();
                let k = r.usize(v.len() + 1);
                v.truncate(k);
                v
            }
            _ => valid_raw.to_vec(),
        },
        interface: if r.bool() { None } else { Some(dm::Interface { address: if r.bool() { None } else { Some(dm::Underlay { address: (*r.pick(&["10.0.0.1:30041", "[::1]:1", "nonsense", "", "1.2.3.4:99999"])).to_string() }) } }) },
        interfaces: (0..n_if).map(|_| dm::PathInterface { isd_as: r.u64(), id: *r.pick(&[0u64, 1, 65535, 65536, u64::MAX]) }).collect(),
        mtu: *r.pick(&[0u32, 1400, 65535, 65536]),
        expiration: if r.chance(1, 5) { None } else { Some(sciparse::reexport::prost_types::Timestamp { seconds: *r.pick(&[0i64, -5, 1_700_000_000, i64::MAX]), nanos: *r.pick(&[0i32, -1, i32::MAX]) }) },
        latency: (0..r.below(7)).map(|_| sciparse::reexport::prost_types::Duration { seconds: *r.pick(&[0i64, -1, 3, i64::MAX]), nanos: *r.pick(&[0i32, -1, 999_999_999, i32::MAX]) }).collect(),
        bandwidth: (0..r.below(7)).map(|_| r.u64() % 3 * 1000).collect(),
        geo: (0..r.below(7)).map(|_| dm::GeoCoordinates { latitude: *r.pick(&[0.0f32, 1.5, -90.0, 1e30]), longitude: 1.0, address: String::new() }).collect(),
        link_type: (0..r.below(5)).map(|_| *r.pick(&[0i32, 1, 2, 3, 99, -1])).collect(),
        internal_hops: (0..r.below(5)).map(|_| r.u32()).collect(),
        notes: (0..r.below(5)).map(|_| "n".to_string()).collect(),
        epic_auths: None,
        discovery_information: Default::default(),
    }
}

pub fn run(args: &Args, mon: &mut Mon) -> (String, Vec<&'static str>) {
    mon.floor("authentic_segments", 3);
    mon.floor("tampered_cases", 200);
    mon.floor("rpc_totality_cases", 500);
    mon.floor("path_rpc_roundtrips", 20);
    let thorough = args.thorough();
    let miri = cfg!(miri);
    let scale = args.param_u64("scale", 1);
    // ECDSA under Miri costs minutes per signature: the interpreter run covers the protobuf /
    // conversion code (random messages, round trips) only
    let n_seg: u64 = if miri { 0 } else if thorough { 300 * scale } else { 24 * scale };
    let seed = args.seed;
    par_run(mon, args.threads, n_seg, |i, m| {
        if !args.mine(i) {
            return;
        }
        let mut r = Rng::fork(seed, 0x1800_0000 + i);
        let Some(b) = build(&mut r, seed, i) else { return };
        m.shape(&("segment", b.seg.as_entries.len(), b.seg.as_entries.iter().map(|e| e.entry().peer_entries.len()).sum::<usize>().min(4)));
        check_segment(&b, &mut r, thorough && i % 10 == 0, json!({"seed": seed, "index": i, "entries": b.seg.as_entries.len()}), m);
    });

    // RPC totality
    let n_tot: u64 = if miri { 600 } else if thorough { 200_000 * scale } else { 20_000 * scale };
    par_run(mon, args.threads, n_tot, |i, m| {
        if !args.mine(i) {
            return;
        }
        let mut r = Rng::fork(seed, 0x1880_0000 + i);
        m.eval();
        m.count("rpc_totality_cases");
        let seg = rand_rpc_segment(&mut r);
        match catch(|| SignedPathSegment::try_from_rpc(seg.clone()).map(|s| { let _ = format!("{s}"); s.as_entries.len() }).ok()) {
            Err(pn) => m.violation(format!("panic:SignedPathSegment::try_from_rpc:{}", pn.site()), pn.0, json!({"rpc": hex(&seg.encode_to_vec())})),
            Ok(res) => m.shape(&("seg-rpc", res.is_some(), seg.as_entries.len())),
        }
        let valid_raw = [0u8, 0, 0x20, 0, 1, 0, 0, 9, 0x65, 0x53, 0xf1, 0, 0, 0x3f, 0, 0, 0, 1, 1, 2, 3, 4, 5, 6, 0, 0x3f, 0, 2, 0, 0, 6, 5, 4, 3, 2, 1];
        let p = rand_rpc_path(&mut r, &valid_raw);
        let src = IsdAsn::from_u64(*r.pick(&[0u64, 0x1_ff00_0000_0110, 0x2_ff00_0000_0220]));
        let dst = IsdAsn::from_u64(*r.pick(&[0u64, 0x1_ff00_0000_0110, 0x2_ff00_0000_0220]));
        match catch(|| ScionPath::try_from_rpc(p.clone(), src, dst).map(|sp| { let back = sp.to_rpc(); let _ = format!("{sp:?}"); (sp, back) }).ok()) {
            Err(pn) => m.violation(format!("panic:ScionPath::try_from_rpc:{}", pn.site()), pn.0, json!({"rpc": hex(&p.encode_to_vec())})),
            Ok(Some((sp, back))) => {
                // value→rpc→value is the identity on whatever was accepted
                match catch(|| ScionPath::try_from_rpc(back.clone(), src, dst)) {
                    Ok(Ok(again)) if again == sp => m.count("accepted_path_value_roundtrips"),
                    // a latency beyond i64::MAX seconds is not representable in the RPC schema
                    // (to_rpc saturates, by design): such values are outside the round-trip domain
                    Ok(Ok(_)) if sp.metadata().and_then(|m| m.interfaces.as_ref()).map(|v| v.iter().any(|i| i.latency.map(|l| l.as_secs() >= i64::MAX as u64).unwrap_or(false))).unwrap_or(false) => {
                        m.count("unrepresentable_latency_skipped");
                    }
                    Ok(Ok(again)) => {
                        let (a, b) = (format!("{:?}", sp.metadata()), format!("{:?}", again.metadata()));
                        let at = a.bytes().zip(b.bytes()).position(|(x, y)| x != y).unwrap_or(0);
                        let lo = at.saturating_sub(60);
                        let what = if sp.metadata().map(|m| m.expiration) != again.metadata().map(|m| m.expiration) { "expiration" } else { "other-metadata" };
                        m.violation(
                            format!("path-value-rpc-value-differs:{what}"),
                            format!("…{} vs …{}", a.chars().skip(lo).take(160).collect::<String>(), b.chars().skip(lo).take(160).collect::<String>()),
                            json!({"rpc": hex(&p.encode_to_vec())}),
                        )
                    }
                    other => m.violation("path-value-rpc-value-differs:refused", format!("{:?}", other.map(|x| x.map(|_| ()))), json!({"rpc": hex(&p.encode_to_vec())})),
                }
            }
            Ok(None) => {}
        }
    });

    // paths produced by the combinator: value→rpc→value and rpc→value→rpc
    {
        let mut r = Rng::fork(seed, 0x18ff);
        let n = if miri { 6 } else { 40 };
        for _ in 0..n {
            let (t, _) = gen_topology(&mut r, 1);
            let b = beacon(&mut r, &t, 5, true, 1_700_000_000, true);
            let cores: Vec<_> = b.core_segments.iter().map(|s| to_sciparse_segment(&t, s)).collect();
            let (s, d) = (0usize, t.ases.len() - 1);
            let nons: Vec<_> = b.noncore_segments.iter().filter(|x| x.last_as() == s || x.last_as() == d).map(|x| to_sciparse_segment(&t, x)).collect();
            let paths = combine(ia(&t, s), ia(&t, d), cores, nons);
            for p in paths.iter().take(20) {
                mon.eval();
                let rpc = p.to_rpc();
                match catch(|| ScionPath::try_from_rpc(rpc.clone(), p.src_ia(), p.dst_ia())) {
                    Ok(Ok(back)) => {
                        if back != *p || back.dp_path().as_slice() != p.dp_path().as_slice() {
                            mon.violation("path-value-rpc-value-differs", "combinator path does not survive to_rpc → try_from_rpc", json!({"dp": hex(p.dp_path().as_slice())}));
                        } else if back.to_rpc() != rpc {
                            mon.violation("path-rpc-value-rpc-differs", "rpc → value → rpc changed the message", json!({"dp": hex(p.dp_path().as_slice())}));
                        } else {
                            mon.count("path_rpc_roundtrips");
                        }
                    }
                    other => mon.violation("path-rpc-roundtrip-refused", format!("{:?}", other.map(|x| x.map(|_| ()))), json!({"dp": hex(p.dp_path().as_slice())})),
                }
            }
        }
    }
    mon.sample_labeled("tamper-kinds", || json!({"kinds": ["flip-segment-info", "flip-header-body", "flip-signature", "segment-info-unknown-field", "segment-info-noncanonical-varint", "swap-entries", "truncate", "replay-entry-at-end", "duplicate-entry-in-place", "drop-entry", "key-substitution"]}));

    (
        format!("{n_seg} authentic signed segments (2..5 entries, peer entries, random P-256 keys per AS) taken from generated topologies; at the protobuf boundary: every bit of the segment info, 24 (quick) / all (thorough, every 10th segment) bits of each entry's header‖body, 12 / all bits of each signature, unknown-field and non-canonical re-encodings of the segment info, all swaps, truncations, drops, in-place duplications, replayed copies of each entry, key substitution per AS; provenance oracle per entry. {n_tot} random protobuf segment and path messages with out-of-range fields for totality; combinator paths for RPC round trips. distinct = distinct (tamper kind, segment length) and message-shape classes."),
        vec![
            "provenance oracle: an entry is authentic iff its signed bytes, its position, all preceding entries' bytes, the segment-info bytes and the resolved key are those of the original (no cryptography in the oracle; ECDSA/P-256 from RustCrypto trusted)",
            "a tampered message whose conversion is refused counts as rejected",
        ],
    )
}
