//! C03 — wire codec is lossless, matches the SCION format, never truncates silently.
//!
//! Every case is generated as a plain *specification* (`Spec`), from which two things are built
//! independently: the sciparse model, and the expected wire image produced by the reference
//! encoder in `refscion` (written from the header specification, including the RFC 1071 checksum
//! over the SCION pseudo header). Oracles on the real encoder/decoder:
//!   * representability: a spec the header format cannot represent must be refused;
//!   * `try_encode` length == `required_size()` == reference length, bytes == reference bytes
//!     (this covers header-length, payload-length, UDP-length and checksum fields);
//!   * decode(encode(m)) == m (SCMP error quotes: equal up to the documented truncation);
//!   * encoding into buffers at all 8 byte alignments gives identical bytes;
//!   * reverse direction: canonical reference encodings accepted by the decoder re-encode to the
//!     same bytes.

use std::net::{Ipv4Addr, Ipv6Addr};

use refscion::wire::{self as rw, RHop, RInfo, RPacket, RPath, RStdPath};
use sciparse::{
    address::host_addr::{ServiceAddr, WireHostAddr},
    core::{convert::TryFromView, encode::WireEncode},
    dataplane_path::{
        model::DpPath,
        onehop::model::OneHopPath,
        standard::{
            model::{HopField, InfoField, Segment, StandardPath},
            types::{HopFieldFlags, HopFieldMac, InfoFieldFlags},
        },
        types::PathType,
    },
    header::model::{AddressHeader, CommonHeader, ScionPacketHeader},
    identifier::isd_asn::IsdAsn,
    packet::model::{ScionPacket, ScionRawPacket, ScionScmpPacket, ScionUdpPacket},
    payload::{
        ProtocolNumber,
        scmp::model::{
            ScmpDestinationUnreachable, ScmpEchoReply, ScmpEchoRequest, ScmpExternalInterfaceDown,
            ScmpInternalConnectivityDown, ScmpMessage, ScmpMessageUnknown, ScmpPacketTooBig,
            ScmpParameterProblem, ScmpTracerouteReply, ScmpTracerouteRequest,
        },
        udp::model::UdpDatagram,
    },
    reexport::tinyvec::{ArrayVec, TinyVec},
};
use serde_json::json;
use vmon::{Args, Mon, Rng, catch, hex, par_run, unhex};

// ---------------------------------------------------------------------------------------------
// Specification of a packet (plain data, no sciparse types)

#[derive(Debug, Clone, PartialEq)]
pub enum HostSpec {
    V4([u8; 4]),
    V6([u8; 16]),
    Svc(u16),
    /// address type id (2 bits on the wire) and raw bytes
    Unknown(u8, Vec<u8>),
}

#[derive(Debug, Clone, PartialEq)]
pub enum PathSpec {
    Empty,
    OneHop(RInfo, [RHop; 2]),
    /// curr_inf, curr_hf, segments (info, hops)
    Standard(u8, u8, Vec<(RInfo, Vec<RHop>)>),
    Opaque(u8, Vec<u8>),
}

#[derive(Debug, Clone, PartialEq)]
pub enum ScmpSpec {
    DestUnreach { code: u8, quote: Vec<u8> },
    TooBig { mtu: u16, quote: Vec<u8> },
    ParamProblem { code: u8, pointer: u16, quote: Vec<u8> },
    ExtIfDown { ia: u64, ifid: u16, quote: Vec<u8> },
    IntConnDown { ia: u64, ingress: u16, egress: u16, quote: Vec<u8> },
    EchoRequest { id: u16, seq: u16, data: Vec<u8> },
    EchoReply { id: u16, seq: u16, data: Vec<u8> },
    TraceRequest { id: u16, seq: u16 },
    TraceReply { id: u16, seq: u16, ia: u64, ifid: u16 },
    Unknown { typ: u8, code: u8, data: Vec<u8> },
}

#[derive(Debug, Clone, PartialEq)]
pub enum PayloadSpec {
    Raw(u8, Vec<u8>),
    Udp { src_port: u16, dst_port: u16, data: Vec<u8> },
    Scmp(ScmpSpec),
}

#[derive(Debug, Clone, PartialEq)]
pub struct Spec {
    pub traffic_class: u8,
    pub flow_id: u32,
    pub dst_ia: u64,
    pub src_ia: u64,
    pub dst: HostSpec,
    pub src: HostSpec,
    pub path: PathSpec,
    pub payload: PayloadSpec,
}

pub const SCMP_MAX_PACKET: usize = 1232;

impl HostSpec {
    fn bytes(&self) -> Vec<u8> {
        match self {
            HostSpec::V4(b) => b.to_vec(),
            HostSpec::V6(b) => b.to_vec(),
            HostSpec::Svc(s) => vec![(s >> 8) as u8, *s as u8, 0, 0],
            HostSpec::Unknown(_, b) => b.clone(),
        }
    }
    fn type_id(&self) -> u8 {
        match self {
            HostSpec::V4(_) | HostSpec::V6(_) => 0,
            HostSpec::Svc(_) => 1,
            HostSpec::Unknown(t, _) => *t,
        }
    }
    fn representable(&self) -> bool {
        match self {
            HostSpec::Unknown(t, b) => *t <= 3 && matches!(b.len(), 4 | 8 | 12 | 16),
            _ => true,
        }
    }
    fn to_model(&self) -> WireHostAddr {
        match self {
            HostSpec::V4(b) => WireHostAddr::V4(Ipv4Addr::from(*b)),
            HostSpec::V6(b) => WireHostAddr::V6(Ipv6Addr::from(*b)),
            HostSpec::Svc(s) => WireHostAddr::Svc(ServiceAddr(*s)),
            HostSpec::Unknown(t, b) => {
                let mut a: ArrayVec<[u8; 16]> = ArrayVec::new();
                for x in b.iter().take(16) {
                    a.push(*x);
                }
                WireHostAddr::Unknown { id: *t, bytes: a }
            }
        }
    }
}

fn info_model(i: &RInfo) -> InfoField {
    InfoField { flags: InfoFieldFlags::from_bits_retain(i.flags), segment_id: i.seg_id, timestamp: i.timestamp }
}
fn hop_model(h: &RHop) -> HopField {
    HopField { flags: HopFieldFlags::from_bits_retain(h.flags), expiration_units: h.exp, cons_ingress: h.cons_in, cons_egress: h.cons_eg, mac: HopFieldMac(h.mac) }
}

impl PathSpec {
    fn to_model(&self) -> DpPath {
        match self {
            PathSpec::Empty => DpPath::Empty,
            PathSpec::OneHop(i, h) => DpPath::OneHop(OneHopPath::new_from_parts(info_model(i), [hop_model(&h[0]), hop_model(&h[1])])),
            PathSpec::Standard(ci, ch, segs) => {
                let mut segments: ArrayVec<[Segment; 3]> = ArrayVec::new();
                for (i, hops) in segs.iter().take(3) {
                    let mut hf: TinyVec<[HopField; 12]> = TinyVec::new();
                    for h in hops {
                        hf.push(hop_model(h));
                    }
                    segments.push(Segment { info_field: info_model(i), hop_fields: hf });
                }
                DpPath::Standard(StandardPath { current_info_field: *ci, current_hop_field: *ch, segments })
            }
            PathSpec::Opaque(t, d) => DpPath::Unsupported { path_type: PathType::from(*t), data: d.clone() },
        }
    }
    fn to_ref(&self) -> (u8, RPath) {
        match self {
            PathSpec::Empty => (0, RPath::Empty),
            PathSpec::OneHop(i, h) => (2, RPath::OneHop { info: i.clone(), hops: h.clone() }),
            PathSpec::Standard(ci, ch, segs) => {
                let mut seg_len = [0u8; 3];
                let mut infos = vec![];
                let mut hops = vec![];
                for (k, (i, hs)) in segs.iter().enumerate().take(3) {
                    seg_len[k] = hs.len() as u8;
                    infos.push(i.clone());
                    hops.extend(hs.iter().cloned());
                }
                (1, RPath::Standard(RStdPath { curr_inf: *ci, curr_hf: *ch, rsv: 0, seg_len, infos, hops }))
            }
            PathSpec::Opaque(t, d) => (*t, RPath::Opaque { path_type: *t, data: d.clone() }),
        }
    }
    fn representable(&self) -> bool {
        match self {
            PathSpec::Empty | PathSpec::OneHop(..) => true,
            PathSpec::Standard(ci, ch, segs) => {
                let total: usize = segs.iter().map(|s| s.1.len()).sum();
                !segs.is_empty()
                    && segs.len() <= 3
                    && segs.iter().all(|s| (1..=63).contains(&s.1.len()))
                    && (*ci as usize) < segs.len()
                    && (*ch as usize) < total
                    && *ch < 64
            }
            PathSpec::Opaque(_, d) => d.len() % 4 == 0,
        }
    }
}

impl ScmpSpec {
    fn to_model(&self) -> ScmpMessage {
        match self.clone() {
            ScmpSpec::DestUnreach { code, quote } => ScmpDestinationUnreachable::new(code.into(), quote).into(),
            ScmpSpec::TooBig { mtu, quote } => ScmpPacketTooBig::new(mtu, quote).into(),
            ScmpSpec::ParamProblem { code, pointer, quote } => ScmpParameterProblem::new(code.into(), pointer, quote).into(),
            ScmpSpec::ExtIfDown { ia, ifid, quote } => ScmpExternalInterfaceDown::new(IsdAsn::from_u64(ia), ifid, quote).into(),
            ScmpSpec::IntConnDown { ia, ingress, egress, quote } => ScmpInternalConnectivityDown::new(IsdAsn::from_u64(ia), ingress, egress, quote).into(),
            ScmpSpec::EchoRequest { id, seq, data } => ScmpEchoRequest::new(id, seq, data).into(),
            ScmpSpec::EchoReply { id, seq, data } => ScmpEchoReply::new(id, seq, data).into(),
            ScmpSpec::TraceRequest { id, seq } => ScmpTracerouteRequest::new(id, seq).into(),
            ScmpSpec::TraceReply { id, seq, ia, ifid } => ScmpTracerouteReply::new(id, seq, IsdAsn::from_u64(ia), ifid).into(),
            ScmpSpec::Unknown { typ, code, data } => ScmpMessageUnknown::new(typ, code, data).into(),
        }
    }
    /// reference SCMP encoding (checksum field zero), given the SCION header size
    fn ref_bytes(&self, header_len: usize) -> Vec<u8> {
        let mut out = Vec::new();
        let quote_room = |info: usize| SCMP_MAX_PACKET.saturating_sub(header_len + 4 + info);
        let put_if = |out: &mut Vec<u8>, v: u16| out.extend_from_slice(&(v as u64).to_be_bytes());
        match self {
            ScmpSpec::DestUnreach { code, quote } => {
                out.extend_from_slice(&[1, *code, 0, 0, 0, 0, 0, 0]);
                out.extend_from_slice(&quote[..quote.len().min(quote_room(4))]);
            }
            ScmpSpec::TooBig { mtu, quote } => {
                out.extend_from_slice(&[2, 0, 0, 0, 0, 0]);
                out.extend_from_slice(&mtu.to_be_bytes());
                out.extend_from_slice(&quote[..quote.len().min(quote_room(4))]);
            }
            ScmpSpec::ParamProblem { code, pointer, quote } => {
                out.extend_from_slice(&[4, *code, 0, 0, 0, 0]);
                out.extend_from_slice(&pointer.to_be_bytes());
                out.extend_from_slice(&quote[..quote.len().min(quote_room(4))]);
            }
            ScmpSpec::ExtIfDown { ia, ifid, quote } => {
                out.extend_from_slice(&[5, 0, 0, 0]);
                out.extend_from_slice(&ia.to_be_bytes());
                put_if(&mut out, *ifid);
                out.extend_from_slice(&quote[..quote.len().min(quote_room(16))]);
            }
            ScmpSpec::IntConnDown { ia, ingress, egress, quote } => {
                out.extend_from_slice(&[6, 0, 0, 0]);
                out.extend_from_slice(&ia.to_be_bytes());
                put_if(&mut out, *ingress);
                put_if(&mut out, *egress);
                out.extend_from_slice(&quote[..quote.len().min(quote_room(24))]);
            }
            ScmpSpec::EchoRequest { id, seq, data } | ScmpSpec::EchoReply { id, seq, data } => {
                out.extend_from_slice(&[if matches!(self, ScmpSpec::EchoRequest { .. }) { 128 } else { 129 }, 0, 0, 0]);
                out.extend_from_slice(&id.to_be_bytes());
                out.extend_from_slice(&seq.to_be_bytes());
                out.extend_from_slice(data);
            }
            ScmpSpec::TraceRequest { id, seq } => {
                out.extend_from_slice(&[130, 0, 0, 0]);
                out.extend_from_slice(&id.to_be_bytes());
                out.extend_from_slice(&seq.to_be_bytes());
                out.extend_from_slice(&[0u8; 16]);
            }
            ScmpSpec::TraceReply { id, seq, ia, ifid } => {
                out.extend_from_slice(&[131, 0, 0, 0]);
                out.extend_from_slice(&id.to_be_bytes());
                out.extend_from_slice(&seq.to_be_bytes());
                out.extend_from_slice(&ia.to_be_bytes());
                put_if(&mut out, *ifid);
            }
            ScmpSpec::Unknown { typ, code, data } => {
                out.extend_from_slice(&[*typ, *code, 0, 0]);
                out.extend_from_slice(data);
            }
        }
        out
    }
    fn kind(&self) -> &'static str {
        match self {
            ScmpSpec::DestUnreach { .. } => "dest-unreach",
            ScmpSpec::TooBig { .. } => "too-big",
            ScmpSpec::ParamProblem { .. } => "param-problem",
            ScmpSpec::ExtIfDown { .. } => "ext-if-down",
            ScmpSpec::IntConnDown { .. } => "int-conn-down",
            ScmpSpec::EchoRequest { .. } => "echo-request",
            ScmpSpec::EchoReply { .. } => "echo-reply",
            ScmpSpec::TraceRequest { .. } => "trace-request",
            ScmpSpec::TraceReply { .. } => "trace-reply",
            ScmpSpec::Unknown { .. } => "unknown",
        }
    }
}

impl Spec {
    fn header_model(&self, next: u8) -> ScionPacketHeader {
        ScionPacketHeader {
            common: CommonHeader { traffic_class: self.traffic_class, flow_id: self.flow_id, next_header: ProtocolNumber::from(next) },
            address: AddressHeader {
                dst_ia: IsdAsn::from_u64(self.dst_ia),
                src_ia: IsdAsn::from_u64(self.src_ia),
                dst_host_addr: self.dst.to_model(),
                src_host_addr: self.src.to_model(),
            },
            path: self.path.to_model(),
        }
    }

    /// Expected wire image by the reference encoder; None if the format cannot represent the spec.
    pub fn reference(&self) -> Option<Vec<u8>> {
        if !self.dst.representable() || !self.src.representable() || !self.path.representable() || self.flow_id > 0xfffff {
            return None;
        }
        let (pt, path) = self.path.to_ref();
        let mut p = RPacket {
            version: 0,
            traffic_class: self.traffic_class,
            flow_id: self.flow_id,
            next_hdr: 0,
            hdr_len_units: 0,
            payload_len: 0,
            path_type: pt,
            dt: self.dst.type_id(),
            dl: 0,
            st: self.src.type_id(),
            sl: 0,
            rsv: 0,
            dst_ia: self.dst_ia,
            src_ia: self.src_ia,
            dst_host: self.dst.bytes(),
            src_host: self.src.bytes(),
            path,
            payload: vec![],
            trailing: 0,
        };
        let hl = p.header_len();
        if hl % 4 != 0 || hl > 1020 {
            return None;
        }
        match &self.payload {
            PayloadSpec::Raw(next, data) => {
                p.next_hdr = *next;
                p.payload = data.clone();
            }
            PayloadSpec::Udp { src_port, dst_port, data } => {
                p.next_hdr = rw::PROTO_UDP;
                let len = 8 + data.len();
                if len > 65535 {
                    return None;
                }
                let mut u = Vec::with_capacity(len);
                u.extend_from_slice(&src_port.to_be_bytes());
                u.extend_from_slice(&dst_port.to_be_bytes());
                u.extend_from_slice(&(len as u16).to_be_bytes());
                u.extend_from_slice(&[0, 0]);
                u.extend_from_slice(data);
                let ck = p.l4_checksum_over(&u, rw::PROTO_UDP);
                u[6..8].copy_from_slice(&ck.to_be_bytes());
                p.payload = u;
            }
            PayloadSpec::Scmp(s) => {
                p.next_hdr = rw::PROTO_SCMP;
                let mut b = s.ref_bytes(hl);
                let ck = p.l4_checksum_over(&b, rw::PROTO_SCMP);
                b[2..4].copy_from_slice(&ck.to_be_bytes());
                p.payload = b;
            }
        }
        p.fix_lengths()?;
        Some(p.encode())
    }

    fn kind(&self) -> String {
        let h = |h: &HostSpec| match h {
            HostSpec::V4(_) => "v4".to_string(),
            HostSpec::V6(_) => "v6".to_string(),
            HostSpec::Svc(_) => "svc".to_string(),
            HostSpec::Unknown(t, b) => format!("u{}:{}", t, b.len()),
        };
        let p = match &self.path {
            PathSpec::Empty => "empty".to_string(),
            PathSpec::OneHop(..) => "onehop".to_string(),
            PathSpec::Standard(_, _, s) => format!("std{:?}", s.iter().map(|x| size_class(x.1.len())).collect::<Vec<_>>()),
            PathSpec::Opaque(t, d) => format!("opq{}:{}", t, size_class(d.len())),
        };
        let pl = match &self.payload {
            PayloadSpec::Raw(_, d) => format!("raw:{}", size_class(d.len())),
            PayloadSpec::Udp { data, .. } => format!("udp:{}", size_class(data.len())),
            PayloadSpec::Scmp(s) => format!("scmp:{}", s.kind()),
        };
        format!("{}/{}/{}/{}", h(&self.dst), h(&self.src), p, pl)
    }
}

fn size_class(n: usize) -> &'static str {
    match n {
        0 => "0",
        1 => "1",
        2..=3 => "2-3",
        4..=62 => "4-62",
        63 => "63",
        64..=1199 => "64-1199",
        1200..=1300 => "1200-1300",
        1301..=65000 => "1301-65000",
        65001..=65526 => "65001-65526",
        65527 => "65527",
        65528..=65534 => "65528-65534",
        65535 => "65535",
        65536 => "65536",
        _ => ">65536",
    }
}

// ---------------------------------------------------------------------------------------------
// The monitor for one spec

enum Built {
    Raw(ScionRawPacket),
    Udp(ScionUdpPacket),
    Scmp(ScionScmpPacket),
}

fn build(spec: &Spec) -> Built {
    match &spec.payload {
        PayloadSpec::Raw(next, data) => Built::Raw(ScionPacket { header: spec.header_model(*next), payload: data.clone() }),
        PayloadSpec::Udp { src_port, dst_port, data } => {
            Built::Udp(ScionPacket { header: spec.header_model(rw::PROTO_UDP), payload: UdpDatagram::new(*src_port, *dst_port, data.clone()) })
        }
        PayloadSpec::Scmp(s) => Built::Scmp(ScionPacket { header: spec.header_model(rw::PROTO_SCMP), payload: s.to_model() }),
    }
}

fn spec_json(spec: &Spec) -> serde_json::Value {
    // compact, replayable: the spec is regenerated from (seed, index) by the driver; here we store
    // a readable summary plus the reference bytes when small
    let r = spec.reference();
    let d = format!("{:?}", spec);
    let d = if d.len() > 1500 { format!("{}…", d.chars().take(1500).collect::<String>()) } else { d };
    json!({
        "kind": spec.kind(),
        "flow_id": spec.flow_id,
        "traffic_class": spec.traffic_class,
        "reference_len": r.as_ref().map(|b| b.len()),
        "reference_bytes": r.as_ref().filter(|b| b.len() <= 2048).map(|b| hex(b)),
        "debug": d,
    })
}

fn first_diff(a: &[u8], b: &[u8]) -> String {
    if a.len() != b.len() {
        return format!("length {} vs reference {}", a.len(), b.len());
    }
    match a.iter().zip(b.iter()).position(|(x, y)| x != y) {
        Some(i) => format!("first difference at byte {i}: {:02x} vs reference {:02x}", a[i], b[i]),
        None => "equal".into(),
    }
}

/// which field does byte offset `i` of a packet belong to (for stable signatures)
fn field_at(spec: &Spec, i: usize, hdr_len: usize) -> String {
    if i < 12 {
        return ["ver/tc/flow", "ver/tc/flow", "ver/tc/flow", "ver/tc/flow", "next-hdr", "hdr-len", "payload-len", "payload-len", "path-type", "addr-type-len", "rsv", "rsv"][i].to_string();
    }
    if i < 28 {
        return "isd-as".into();
    }
    if i < hdr_len {
        let addr_end = 28 + spec.dst.bytes().len() + spec.src.bytes().len();
        return if i < addr_end { "host-addr".into() } else { "path".into() };
    }
    let off = i - hdr_len;
    match &spec.payload {
        PayloadSpec::Raw(..) => "raw-payload".into(),
        PayloadSpec::Udp { .. } => match off {
            0..=3 => "udp-port".into(),
            4..=5 => "udp-length".into(),
            6..=7 => "udp-checksum".into(),
            _ => "udp-data".into(),
        },
        PayloadSpec::Scmp(s) => match off {
            0..=1 => "scmp-type-code".into(),
            2..=3 => "scmp-checksum".into(),
            _ => format!("scmp-body:{}", s.kind()),
        },
    }
}

pub fn check_spec(spec: &Spec, mon: &mut Mon) {
    mon.eval();
    let reference = spec.reference();
    let built = build(spec);
    let enc = catch(|| match &built {
        Built::Raw(p) => (p.wire_valid().is_ok(), p.required_size(), p.try_encode_to_vec().ok()),
        Built::Udp(p) => (p.wire_valid().is_ok(), p.required_size(), p.try_encode_to_vec().ok()),
        Built::Scmp(p) => (p.wire_valid().is_ok(), p.required_size(), p.try_encode_to_vec().ok()),
    });
    let (valid, req, bytes) = match enc {
        Err(pn) => {
            mon.violation(format!("panic:encode:{}", pn.site()), pn.0, spec_json(spec));
            return;
        }
        Ok(x) => x,
    };
    let pk = match &spec.payload {
        PayloadSpec::Raw(..) => "raw",
        PayloadSpec::Udp { .. } => "udp",
        PayloadSpec::Scmp(_) => "scmp",
    };
    match (&reference, &bytes) {
        (None, None) => {
            mon.count("rejected_unrepresentable");
            mon.shape(&("rej", spec.kind()));
            if valid {
                mon.violation("wire_valid-ok-but-encode-fails", "wire_valid() accepted what try_encode_to_vec refused", spec_json(spec));
            }
        }
        (None, Some(b)) => {
            mon.count("accepted");
            // unrepresentable but encoded: which rule was broken?
            let why = unrepresentable_reason(spec);
            mon.violation(
                format!("encodes-unrepresentable:{why}"),
                format!("model cannot be represented on the wire ({why}) but try_encode_to_vec returned Ok with {} bytes", b.len()),
                spec_json(spec),
            );
        }
        (Some(_), None) => {
            // the property only constrains accepted models; count it for the vacuity guard
            mon.count("refused_representable");
            mon.shape(&("refused", spec.kind()));
        }
        (Some(r), Some(b)) => {
            mon.count("accepted");
            mon.count(&format!("accepted_{pk}"));
            mon.shape(&("ok", spec.kind()));
            if !valid {
                mon.violation("encode-ok-but-wire_valid-err", "try_encode_to_vec succeeded although wire_valid() reports an error", spec_json(spec));
            }
            if b.len() != req {
                mon.violation("length-not-announced", format!("encoded {} bytes, required_size() announced {req}", b.len()), spec_json(spec));
            }
            if b != r {
                let hdr_len = (r[5] as usize) * 4;
                let at = b.iter().zip(r.iter()).position(|(x, y)| x != y).unwrap_or(b.len().min(r.len()));
                let field = if b.len() != r.len() { "total-length".to_string() } else { field_at(spec, at, hdr_len) };
                mon.violation(
                    format!("wire-mismatch:{pk}:{field}"),
                    format!("encoding differs from the reference encoder of the SCION format: {}", first_diff(b, r)),
                    spec_json(spec),
                );
            }
            // decode(encode(m)) == m
            mon.eval();
            let rt = catch(|| match &built {
                Built::Raw(p) => ScionRawPacket::try_from_slice(b).map(|(m, rest)| (m == *p, rest.len(), String::new())).map_err(|e| e.to_string()),
                Built::Udp(p) => ScionUdpPacket::try_from_slice(b).map(|(m, rest)| (m == *p, rest.len(), String::new())).map_err(|e| e.to_string()),
                Built::Scmp(p) => ScionScmpPacket::try_from_slice(b)
                    .map(|(m, rest)| (scmp_equal_mod_truncation(&m, p), rest.len(), format!("{:?}", m.payload)))
                    .map_err(|e| e.to_string()),
            });
            match rt {
                Err(pn) => mon.violation(format!("panic:decode:{}", pn.site()), pn.0, spec_json(spec)),
                Ok(Err(e)) => mon.violation(format!("own-encoding-rejected:{pk}"), format!("decoder rejects the encoder's output: {e}"), spec_json(spec)),
                Ok(Ok((eq, rest, dbg))) => {
                    if !eq {
                        mon.violation(format!("roundtrip-not-equal:{pk}"), format!("decode(encode(m)) != m {dbg}"), spec_json(spec));
                    }
                    if rest != 0 {
                        mon.violation("roundtrip-trailing", format!("{rest} bytes left after decoding own encoding"), spec_json(spec));
                    }
                }
            }
            // all 8 alignments of the destination buffer (and thus of the checksummed data)
            if b.len() <= 4096 {
                for off in 0..8usize {
                    mon.eval();
                    let mut buf = vec![0xEEu8; off + req + 8];
                    let r2 = catch(|| match &built {
                        Built::Raw(p) => p.try_encode(&mut buf[off..off + req]).ok(),
                        Built::Udp(p) => p.try_encode(&mut buf[off..off + req]).ok(),
                        Built::Scmp(p) => p.try_encode(&mut buf[off..off + req]).ok(),
                    });
                    match r2 {
                        Err(pn) => mon.violation(format!("panic:encode-aligned:{}", pn.site()), pn.0, spec_json(spec)),
                        Ok(n) => {
                            if n != Some(req) || &buf[off..off + req] != &b[..] {
                                mon.violation("alignment-dependent-encoding", format!("encoding at buffer offset {off} differs: {}", first_diff(&buf[off..off + req], b)), spec_json(spec));
                            }
                            if buf[..off].iter().any(|x| *x != 0xEE) || buf[off + req..].iter().any(|x| *x != 0xEE) {
                                mon.violation("encode-wrote-outside", format!("try_encode at offset {off} wrote outside its {req} bytes"), spec_json(spec));
                            }
                        }
                    }
                }
                // a buffer one byte too small must be refused
                let mut small = vec![0u8; req.saturating_sub(1)];
                let r3 = catch(|| match &built {
                    Built::Raw(p) => p.try_encode(&mut small).is_ok(),
                    Built::Udp(p) => p.try_encode(&mut small).is_ok(),
                    Built::Scmp(p) => p.try_encode(&mut small).is_ok(),
                });
                if !matches!(r3, Ok(false)) && req > 0 {
                    mon.violation("encode-into-short-buffer", format!("{r3:?}"), spec_json(spec));
                }
            }
        }
    }
}

fn unrepresentable_reason(spec: &Spec) -> String {
    if spec.flow_id > 0xfffff {
        return "flow-id-over-20-bits".into();
    }
    for (n, h) in [("dst", &spec.dst), ("src", &spec.src)] {
        if let HostSpec::Unknown(t, b) = h {
            if *t > 3 {
                return format!("{n}-addr-type-over-2-bits");
            }
            if !matches!(b.len(), 4 | 8 | 12 | 16) {
                return format!("{n}-addr-length");
            }
        }
    }
    if !spec.path.representable() {
        return match &spec.path {
            PathSpec::Standard(ci, ch, segs) => {
                let total: usize = segs.iter().map(|s| s.1.len()).sum();
                if *ch >= 64 && (*ch as usize) < total {
                    "curr-hf-over-6-bits".into()
                } else if segs.iter().any(|s| s.1.len() > 63) {
                    "segment-over-63-hops".into()
                } else if (*ci as usize) >= segs.len() || (*ch as usize) >= total {
                    "pointer-out-of-range".into()
                } else {
                    "path-shape".into()
                }
            }
            PathSpec::Opaque(..) => "opaque-path-unaligned".into(),
            _ => "path".into(),
        };
    }
    let hl = 12 + 16 + spec.dst.bytes().len() + spec.src.bytes().len()
        + match &spec.path {
            PathSpec::Empty => 0,
            PathSpec::OneHop(..) => 32,
            PathSpec::Standard(_, _, s) => 4 + 8 * s.len() + 12 * s.iter().map(|x| x.1.len()).sum::<usize>(),
            PathSpec::Opaque(_, d) => d.len(),
        };
    if hl > 1020 {
        return "header-over-1020-bytes".into();
    }
    match &spec.payload {
        PayloadSpec::Raw(_, d) if d.len() > 65535 => "payload-over-65535".into(),
        PayloadSpec::Udp { data, .. } if data.len() + 8 > 65535 => "udp-length-over-65535".into(),
        PayloadSpec::Scmp(_) => "scmp-payload-over-65535".into(),
        _ => "other".into(),
    }
}

fn scmp_equal_mod_truncation(decoded: &ScionScmpPacket, sent: &ScionScmpPacket) -> bool {
    if decoded.header != sent.header {
        return false;
    }
    use ScmpMessage as M;
    fn pre(a: &[u8], b: &[u8]) -> bool {
        b.starts_with(a)
    }
    match (&decoded.payload, &sent.payload) {
        (M::DestinationUnreachable(a), M::DestinationUnreachable(b)) => a.code == b.code && pre(a.get_offending_packet(), b.get_offending_packet()),
        (M::PacketTooBig(a), M::PacketTooBig(b)) => a.mtu == b.mtu && pre(a.get_offending_packet(), b.get_offending_packet()),
        (M::ParameterProblem(a), M::ParameterProblem(b)) => a.code == b.code && a.pointer == b.pointer && pre(a.get_offending_packet(), b.get_offending_packet()),
        (M::ExternalInterfaceDown(a), M::ExternalInterfaceDown(b)) => a.isd_asn == b.isd_asn && a.interface_id == b.interface_id && pre(a.get_offending_packet(), b.get_offending_packet()),
        (M::InternalConnectivityDown(a), M::InternalConnectivityDown(b)) => {
            a.isd_asn == b.isd_asn && a.ingress_interface_id == b.ingress_interface_id && a.egress_interface_id == b.egress_interface_id && pre(a.get_offending_packet(), b.get_offending_packet())
        }
        (a, b) => a == b,
    }
}

// ---------------------------------------------------------------------------------------------
// Generators (boundary directed)

fn gen_ia(r: &mut Rng) -> u64 {
    match r.below(5) {
        0 => 0,
        1 => u64::MAX,
        2 => 0x0001_ff00_0000_0110,
        _ => r.u64(),
    }
}

fn gen_host(r: &mut Rng, allow_invalid: bool) -> HostSpec {
    match r.below(10) {
        0..=2 => HostSpec::V4(r.u32().to_be_bytes()),
        3..=5 => {
            let mut b = [0u8; 16];
            r.fill(&mut b);
            HostSpec::V6(b)
        }
        6..=7 => HostSpec::Svc(*r.pick(&[1u16, 2, 0x10, 0x8001, 0xffff, 0, 0x1234])),
        _ => {
            // unknown types: every (type, length) combination that is not a defined type
            let mut t = r.below(4) as u8;
            let mut len = *r.pick(&[4usize, 8, 12, 16]);
            if allow_invalid && r.chance(1, 4) {
                match r.below(3) {
                    0 => t = *r.pick(&[4u8, 5, 7, 8, 16, 63, 64, 255]),
                    1 => len = *r.pick(&[0usize, 1, 2, 3, 5, 6, 7, 9, 13, 15]),
                    _ => {}
                }
            }
            // (0,4)=IPv4, (0,16)=IPv6, (1,4)=service are the defined types: not "unknown"
            if (t == 0 && (len == 4 || len == 16)) || (t == 1 && len == 4) {
                t = 2;
            }
            HostSpec::Unknown(t, r.bytes(len))
        }
    }
}

fn gen_hop(r: &mut Rng) -> RHop {
    RHop { flags: r.u8() & 3, exp: r.u8(), cons_in: r.u16(), cons_eg: r.u16(), mac: [r.u8(), r.u8(), r.u8(), r.u8(), r.u8(), r.u8()] }
}
fn gen_info(r: &mut Rng) -> RInfo {
    RInfo { flags: r.u8() & 3, rsv: 0, seg_id: r.u16(), timestamp: r.u32() }
}

fn gen_path(r: &mut Rng, allow_invalid: bool) -> PathSpec {
    match r.below(10) {
        0 => PathSpec::Empty,
        1 => PathSpec::OneHop(gen_info(r), [gen_hop(r), gen_hop(r)]),
        2 => {
            let t = *r.pick(&[3u8, 4, 5, 100, 255]);
            let mut len = (*r.pick(&[0usize, 4, 8, 32, 512, 960, 964, 976, 980, 984, 988, 1000])) as usize;
            if allow_invalid && r.chance(1, 5) {
                len += r.range(1, 3) as usize;
            }
            PathSpec::Opaque(t, r.bytes(len))
        }
        _ => {
            let nseg = r.range(1, 3) as usize;
            let pick_len = |r: &mut Rng| -> usize {
                match r.below(8) {
                    0 => 1,
                    1 => 2,
                    2 => 62,
                    3 => 63,
                    4 if allow_invalid => *r.pick(&[0usize, 64, 65]),
                    _ => r.range(1, 30) as usize,
                }
            };
            let segs: Vec<(RInfo, Vec<RHop>)> = (0..nseg)
                .map(|_| {
                    let n = pick_len(r);
                    (gen_info(r), (0..n).map(|_| gen_hop(r)).collect())
                })
                .collect();
            let total: usize = segs.iter().map(|s| s.1.len()).sum();
            let ch = match r.below(6) {
                0 => 0,
                1 => total.saturating_sub(1).min(255) as u8,
                2 if allow_invalid => total.min(255) as u8,
                3 => 63.min(total.saturating_sub(1)) as u8,
                4 => 64.min(total.saturating_sub(1)) as u8,
                _ => r.below(total.max(1) as u64).min(255) as u8,
            };
            let ci = if allow_invalid && r.chance(1, 10) { r.below(5) as u8 } else { r.below(nseg as u64) as u8 };
            PathSpec::Standard(ci, ch, segs)
        }
    }
}

const SIZES: [usize; 26] = [
    0, 1, 2, 3, 4, 5, 7, 8, 9, 100, 1100, 1199, 1200, 1232, 1233, 1500, 9216, 65526, 65527, 65528, 65534, 65535, 65536, 65537, 70000, 131072,
];

fn gen_payload_bytes(r: &mut Rng, big: bool) -> Vec<u8> {
    let n = if big || r.chance(1, 6) { *r.pick(&SIZES) } else { *r.pick(&SIZES[..16]) };
    // unique-ish content: position-dependent so truncation/shift shows up as a byte difference
    let salt = r.u8();
    (0..n).map(|i| (i as u8).wrapping_mul(31).wrapping_add(salt)).collect()
}

fn gen_scmp(r: &mut Rng, big: bool) -> ScmpSpec {
    let q = |r: &mut Rng| gen_payload_bytes(r, big);
    match r.below(10) {
        0 => ScmpSpec::DestUnreach { code: r.below(8) as u8, quote: q(r) },
        1 => ScmpSpec::TooBig { mtu: r.u16(), quote: q(r) },
        2 => ScmpSpec::ParamProblem { code: *r.pick(&[0u8, 1, 16, 17, 21, 33, 48, 53, 66, 99]), pointer: r.u16(), quote: q(r) },
        3 => ScmpSpec::ExtIfDown { ia: gen_ia(r), ifid: r.u16(), quote: q(r) },
        4 => ScmpSpec::IntConnDown { ia: gen_ia(r), ingress: r.u16(), egress: r.u16(), quote: q(r) },
        5 => ScmpSpec::EchoRequest { id: r.u16(), seq: r.u16(), data: q(r) },
        6 => ScmpSpec::EchoReply { id: r.u16(), seq: r.u16(), data: q(r) },
        7 => ScmpSpec::TraceRequest { id: r.u16(), seq: r.u16() },
        8 => ScmpSpec::TraceReply { id: r.u16(), seq: r.u16(), ia: gen_ia(r), ifid: r.u16() },
        _ => ScmpSpec::Unknown { typ: *r.pick(&[0u8, 3, 7, 100, 127, 132, 200, 255]), code: r.u8(), data: q(r) },
    }
}

pub fn gen_spec(r: &mut Rng, allow_invalid: bool, big: bool) -> Spec {
    let payload = match r.below(3) {
        0 => PayloadSpec::Raw(*r.pick(&[0u8, 6, 43, 201, 203, 253, 255, 1]), gen_payload_bytes(r, big)),
        1 => PayloadSpec::Udp { src_port: r.u16(), dst_port: r.u16(), data: gen_payload_bytes(r, big) },
        _ => PayloadSpec::Scmp(gen_scmp(r, big)),
    };
    Spec {
        traffic_class: *r.pick(&[0u8, 1, 0x80, 0xff, 0x5a]),
        flow_id: match r.below(6) {
            0 => 0,
            1 => 0xfffff,
            2 if allow_invalid => *r.pick(&[0x100000u32, 0xffff_ffff, 0x1fffff]),
            _ => r.u32() & 0xfffff,
        },
        dst_ia: gen_ia(r),
        src_ia: gen_ia(r),
        dst: gen_host(r, allow_invalid),
        src: gen_host(r, allow_invalid),
        path: gen_path(r, allow_invalid),
        payload,
    }
}

// ---------------------------------------------------------------------------------------------
// reverse direction: canonical reference encodings → decode → re-encode

fn check_reverse(spec: &Spec, mon: &mut Mon) {
    let Some(bytes) = spec.reference() else { return };
    mon.eval();
    let r = catch(|| {
        let raw = ScionRawPacket::try_from_slice(&bytes).map_err(|e| e.to_string())?;
        if !raw.1.is_empty() {
            return Err(format!("{} trailing bytes", raw.1.len()));
        }
        let re = raw.0.try_encode_to_vec().map_err(|e| e.to_string())?;
        let typed = match &spec.payload {
            PayloadSpec::Udp { .. } => ScionUdpPacket::try_from_slice(&bytes).map_err(|e| e.to_string())?.0.try_encode_to_vec().map_err(|e| e.to_string())?,
            PayloadSpec::Scmp(_) => ScionScmpPacket::try_from_slice(&bytes).map_err(|e| e.to_string())?.0.try_encode_to_vec().map_err(|e| e.to_string())?,
            PayloadSpec::Raw(..) => re.clone(),
        };
        Ok((re, typed))
    });
    match r {
        Err(pn) => mon.violation(format!("panic:reverse:{}", pn.site()), pn.0, spec_json(spec)),
        Ok(Err(_)) => mon.count("reverse_rejected"),
        Ok(Ok((re, typed))) => {
            mon.count("reverse_accepted");
            mon.shape(&("rev", spec.kind()));
            if re != bytes {
                mon.violation("reencode-differs:raw", format!("decode→encode of a canonical packet changed it: {}", first_diff(&re, &bytes)), spec_json(spec));
            }
            if typed != bytes {
                let hdr_len = (bytes[5] as usize) * 4;
                let at = typed.iter().zip(bytes.iter()).position(|(x, y)| x != y).unwrap_or(0);
                let field = if typed.len() != bytes.len() { "total-length".to_string() } else { field_at(spec, at, hdr_len) };
                mon.violation(format!("reencode-differs:typed:{field}"), format!("typed decode→encode of a canonical packet changed it: {}", first_diff(&typed, &bytes)), spec_json(spec));
            }
        }
    }
}

pub fn run(args: &Args, mon: &mut Mon) -> (String, Vec<&'static str>) {
    mon.floor("accepted", 1000);
    mon.floor("accepted_udp", 100);
    mon.floor("accepted_scmp", 100);
    mon.floor("accepted_raw", 100);
    mon.floor("rejected_unrepresentable", 50);
    mon.floor("reverse_accepted", 500);
    let thorough = args.thorough();
    let miri = cfg!(miri);

    if let Some(path) = &args.replay {
        let v: serde_json::Value = serde_json::from_str(&std::fs::read_to_string(path).expect("replay")).unwrap();
        let idx = v["index"].as_u64().expect("index");
        let seed = v["seed"].as_u64().unwrap_or(args.seed);
        let fam = v["family"].as_u64().unwrap_or(0);
        let mut r = Rng::fork(seed, fam * 0x1_0000_0000 + idx);
        let spec = gen_spec(&mut r, fam != 2, fam == 1);
        check_spec(&spec, mon);
        check_reverse(&spec, mon);
        let _ = unhex;
        return ("replay".into(), vec![]);
    }

    // family 0: small/medium payloads, invalid allowed; family 1: big payloads; family 2: valid only
    let scale = args.param_u64("scale", 1);
    let n0: u64 = if miri { args.param_u64("n", 40) } else if thorough { 3_000_000 * scale } else { 150_000 * scale };
    let n1: u64 = if miri { 2 } else if thorough { 60_000 * scale } else { 4_000 * scale };
    let n2: u64 = if miri { 20 } else if thorough { 1_000_000 * scale } else { 60_000 * scale };
    for (fam, n) in [(0u64, n0), (1, n1), (2, n2)] {
        par_run(mon, args.threads, n, |i, m| {
            if !args.mine(i) {
                return;
            }
            let mut r = Rng::fork(args.seed, fam * 0x1_0000_0000 + i);
            let spec = gen_spec(&mut r, fam != 2, fam == 1);
            let before = m.violations.len();
            check_spec(&spec, m);
            check_reverse(&spec, m);
            if m.violations.len() > before {
                // make new violations replayable by (seed, family, index)
                for v in m.violations.values_mut() {
                    if v.replay.get("index").is_none() {
                        if let serde_json::Value::Object(o) = &mut v.replay {
                            o.insert("index".into(), json!(i));
                            o.insert("family".into(), json!(fam));
                            o.insert("seed".into(), json!(args.seed));
                        }
                    }
                }
            }
            if i < 3 {
                m.sample(|| spec_json(&spec));
            }
        });
    }
    mon.note("cases", json!({"mixed_incl_unrepresentable": n0, "big_payloads": n1, "valid_only": n2}));

    (
        format!(
            "{} packet specifications (boundary-directed: all host address kinds incl. unknown (type,length) combinations, empty/one-hop/standard (1..63 hops per segment)/opaque paths, every SCMP message kind, raw/UDP/SCMP payload sizes from {{0..9, 1199..1233, 65526..65537, 2^17}}, extreme flow ids/traffic classes, unrepresentable variants), each built twice: as sciparse model and as reference wire image. Compared: accept/reject vs representability, encoded bytes vs reference bytes (length, header-length, payload-length, UDP length, checksum), decode(encode(m)) == m, 8 buffer alignments, short-buffer refusal, and decode→re-encode of every canonical reference packet. distinct = distinct (address kinds, path shape class, payload kind/size class, outcome).",
            n0 + n1 + n2
        ),
        vec![
            "reference header/UDP/SCMP layouts and RFC 1071 checksum in harness/refscion/src/wire.rs (from the SCION header and SCMP specifications)",
            "model enum redundancies (ProtocolNumber::Other(17), PathType::Other(1), Unknown{type 0,len 4} etc., which alias a named variant on the wire) are not generated",
            "SCMP error quotes are compared up to the documented truncation to a 1232-byte packet",
        ],
    )
}
