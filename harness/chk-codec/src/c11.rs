//! C11 — hop-field authentication and per-AS advance are a correct monotone state machine.
//!
//! Monitors:
//!  (A) state machine: on every standard-path byte string of an exhaustive small-shape family
//!      (and random larger ones) and every step sequence up to a bound over
//!      {ingress-internal, ingress-external, egress} × {no validator, MAC validator}:
//!      `Err` ⇒ bytes unchanged (snapshot); any non-`Err` result ⇒ current-hop / current-info
//!      pointers never move backwards, an egress advance and a segment-change ingress move the
//!      hop pointer strictly forward; a router loop (ingress, then egress if told to continue)
//!      terminates after at most `#hop fields` AS visits (logical step count, no clock).
//!  (B) authenticity: paths built by the reference MAC chain (per-AS keys, both construction
//!      directions, 1–3 segments) verify at every AS with `HopMacValidator`, are delivered after
//!      exactly `#ASes` visits, and so does the reversed path on the way back.
//!  (C) tamper evidence: every single-bit flip (and sampled double flips) of an authenticated bit
//!      (ExpTime, ConsIngress, ConsEgress, MAC, segment timestamp, SegID) makes validation fail no
//!      later than at the AS that owns the earliest affected hop field.

use refscion::{
    mac::{Key, beta_next, hop_mac},
    wire::{RHop, RInfo, RStdPath},
};
use sciparse::{
    core::view::View,
    dataplane_path::standard::{
        routing::{
            EgressValidateResult, HopMacValidator, IngressAdvanceAction, IngressValidateResult,
        },
        view::StandardPathView,
    },
};
use serde_json::json;
use vmon::{Args, Mon, Rng, catch, hex, par_run, unhex};

use crate::c12::gen_path;

#[derive(Clone, Copy, Debug, PartialEq, Eq, Hash)]
pub enum Step {
    IngressInternal,
    IngressExternal,
    Egress,
}
const STEPS: [Step; 3] = [Step::IngressInternal, Step::IngressExternal, Step::Egress];

#[derive(Debug, Clone, PartialEq, Eq, Hash)]
pub enum Outcome {
    /// advance refused, path must be unchanged
    Err(String),
    /// ingress result: Some(egress_if) = continue to egress, None = deliver locally; bool = the
    /// validator accepted
    Ingress { cont: Option<u16>, ingress_if: u16, valid: bool },
    Egress { egress_if: u16, valid: bool },
}

/// Run one step of the real state machine on `bytes` (must parse as a standard path).
pub fn do_step(bytes: &mut [u8], step: Step, key: Option<&Key>) -> Result<Outcome, vmon::Panic> {
    catch(|| {
        let (v, _) = StandardPathView::try_from_mut_slice(bytes).expect("parseable path");
        match step {
            Step::IngressInternal | Step::IngressExternal => {
                let internal = step == Step::IngressInternal;
                match key {
                    None => match v.advance_ingress(internal) {
                        Err(e) => Outcome::Err(e.to_string()),
                        Ok(o) => Outcome::Ingress {
                            cont: match o.action {
                                IngressAdvanceAction::ContinueEgress { egress_if } => Some(egress_if),
                                IngressAdvanceAction::ForwardLocal => None,
                            },
                            ingress_if: o.ingress_interface,
                            valid: true,
                        },
                    },
                    Some(k) => match v.advance_ingress_with_validator(HopMacValidator { key: *k }, internal) {
                        Err(e) => Outcome::Err(e.to_string()),
                        Ok(res) => {
                            let (o, valid) = match res {
                                IngressValidateResult::Ok(o) => (o, true),
                                IngressValidateResult::ValidationFailed(o, _) => (o, false),
                            };
                            Outcome::Ingress {
                                cont: match o.action {
                                    IngressAdvanceAction::ContinueEgress { egress_if } => Some(egress_if),
                                    IngressAdvanceAction::ForwardLocal => None,
                                },
                                ingress_if: o.ingress_interface,
                                valid,
                            }
                        }
                    },
                }
            }
            Step::Egress => match key {
                None => match v.advance_egress() {
                    Err(e) => Outcome::Err(e.to_string()),
                    Ok(o) => Outcome::Egress { egress_if: o.egress_interface, valid: true },
                },
                Some(k) => match v.advance_egress_with_validator(HopMacValidator { key: *k }) {
                    Err(e) => Outcome::Err(e.to_string()),
                    Ok(EgressValidateResult::Ok(o)) => Outcome::Egress { egress_if: o.egress_interface, valid: true },
                    Ok(EgressValidateResult::ValidationFailed(o, _)) => Outcome::Egress { egress_if: o.egress_interface, valid: false },
                },
            },
        }
    })
}

fn pointers(bytes: &[u8]) -> (u8, u8) {
    (bytes[0] >> 6, bytes[0] & 0x3f)
}

fn err_class(e: &str) -> &'static str {
    if e.starts_with("hop out of bounds") {
        "hop-oob"
    } else if e.starts_with("info out of bounds") {
        "info-oob"
    } else if e.starts_with("current hop field index is in segment") {
        "seg-idx"
    } else {
        "invalid-state"
    }
}

// ---------------------------------------------------------------------------------------------
// (A) state machine

fn check_sequence(p: &RStdPath, seq: &[Step], key: Option<&Key>, mon: &mut Mon) {
    let orig = p.encode();
    let mut bytes = orig.clone();
    let nh = RStdPath::n_hops(p.seg_len);
    let mut trace: Vec<String> = Vec::new();
    for (si, st) in seq.iter().enumerate() {
        mon.eval();
        mon.count("sm_steps");
        let before = bytes.clone();
        let (ci0, ch0) = pointers(&before);
        let out = do_step(&mut bytes, *st, key);
        let replay = || json!({"kind": "sm", "bytes": hex(&orig), "steps": seq.iter().map(|s| format!("{s:?}")).collect::<Vec<_>>(), "mac_validator": key.map(|k| hex(k)), "failing_step": si});
        match out {
            Err(pn) => {
                mon.violation(format!("panic:advance:{}", pn.site()), format!("{st:?} panicked: {}", pn.0), replay());
                return;
            }
            Ok(Outcome::Err(e)) => {
                mon.count("sm_err");
                trace.push(format!("E:{}", err_class(&e)));
                if bytes != before {
                    mon.violation(
                        format!("non-atomic:{st:?}:{}", err_class(&e)),
                        format!("{st:?} returned Err({e}) but changed the path bytes (meta {} -> {})", hex(&before[..4]), hex(&bytes[..4])),
                        replay(),
                    );
                    return;
                }
            }
            Ok(o) => {
                mon.count("sm_ok");
                let (ci1, ch1) = pointers(&bytes);
                trace.push(match &o {
                    Outcome::Ingress { cont: Some(_), valid, .. } => format!("I+{}", *valid as u8),
                    Outcome::Ingress { cont: None, valid, .. } => format!("L{}", *valid as u8),
                    Outcome::Egress { valid, .. } => format!("G{}", *valid as u8),
                    Outcome::Err(_) => unreachable!(),
                });
                if ch1 < ch0 || ci1 < ci0 {
                    mon.violation(
                        format!("pointer-backwards:{st:?}"),
                        format!("{st:?} moved pointers backwards: curr_hf {ch0}->{ch1}, curr_inf {ci0}->{ci1}"),
                        replay(),
                    );
                    return;
                }
                if ch1 as usize >= nh.max(1) && nh > 0 {
                    mon.violation(format!("pointer-out-of-range:{st:?}"), format!("curr_hf {ch1} >= {nh} hop fields after a successful advance"), replay());
                    return;
                }
                match (&o, st) {
                    (Outcome::Egress { .. }, _) => {
                        if ch1 != ch0 + 1 || ci1 != ci0 {
                            mon.violation("egress-not-one-step", format!("egress moved curr_hf {ch0}->{ch1}, curr_inf {ci0}->{ci1}"), replay());
                            return;
                        }
                    }
                    (Outcome::Ingress { .. }, _) => {
                        // either stays (normal hop / delivery) or crosses into the next segment
                        let crossed = ch1 == ch0 + 1 && ci1 == ci0 + 1;
                        let stayed = ch1 == ch0 && ci1 == ci0;
                        if !(crossed || stayed) {
                            mon.violation("ingress-bad-move", format!("ingress moved curr_hf {ch0}->{ch1}, curr_inf {ci0}->{ci1}"), replay());
                            return;
                        }
                    }
                    _ => {}
                }
                // only the current info field, the current hop field and the meta header may
                // change; everything else is read-only for an advance
                let changed: Vec<usize> = (0..bytes.len()).filter(|i| bytes[*i] != before[*i]).collect();
                let ni = RStdPath::n_infos(p.seg_len);
                let info_rng = 4 + 8 * ci0 as usize..4 + 8 * (ci0 as usize + 1);
                let hop_rng = 4 + 8 * ni + 12 * ch0 as usize..4 + 8 * ni + 12 * (ch0 as usize + 1);
                for i in changed {
                    if !(i == 0 || info_rng.contains(&i) || hop_rng.contains(&i)) {
                        mon.violation("advance-wrote-elsewhere", format!("{st:?} changed byte {i}, outside meta/current info/current hop"), replay());
                        return;
                    }
                }
            }
        }
    }
    mon.shape(&("sm", p.seg_len, p.well_formed(), seq.len(), key.is_some(), trace));
}

/// router loop from the path's current position: ingress (external unless `first_internal` for
/// the first visit), then egress when told to continue. Must stop within #hop-field AS visits.
fn check_bounded_walk(p: &RStdPath, first_internal: bool, mon: &mut Mon) {
    let orig = p.encode();
    let mut bytes = orig.clone();
    let nh = RStdPath::n_hops(p.seg_len);
    let mut visits = 0usize;
    let mut internal = first_internal;
    mon.eval();
    mon.count("bounded_walks");
    let replay = || json!({"kind": "walk", "bytes": hex(&orig), "first_internal": first_internal});
    loop {
        if visits > nh + 2 {
            mon.violation("unbounded-processing", format!("router loop still running after {visits} AS visits on a path with {nh} hop fields"), replay());
            return;
        }
        let step = if internal { Step::IngressInternal } else { Step::IngressExternal };
        internal = false;
        match do_step(&mut bytes, step, None) {
            Err(pn) => {
                mon.violation(format!("panic:advance:{}", pn.site()), pn.0, replay());
                return;
            }
            Ok(Outcome::Err(_)) => break,
            Ok(Outcome::Ingress { cont: None, .. }) => {
                visits += 1;
                break;
            }
            Ok(Outcome::Ingress { cont: Some(_), .. }) => {
                visits += 1;
                match do_step(&mut bytes, Step::Egress, None) {
                    Err(pn) => {
                        mon.violation(format!("panic:advance:{}", pn.site()), pn.0, replay());
                        return;
                    }
                    Ok(Outcome::Err(_)) => break,
                    Ok(_) => {}
                }
            }
            Ok(_) => unreachable!(),
        }
    }
    if visits > nh {
        mon.violation("more-visits-than-hops", format!("{visits} successful AS visits on a path with {nh} hop fields"), replay());
    }
    mon.shape(&("walk", p.seg_len, p.curr_hf.min(10), visits));
}

// ---------------------------------------------------------------------------------------------
// (B)+(C) authentic paths

#[derive(Debug, Clone)]
pub struct Authentic {
    pub path: RStdPath,
    /// key of the AS visited at position i (travel order)
    pub as_keys: Vec<Key>,
    /// AS position (travel order) owning hop field i (travel order)
    pub hop_owner: Vec<usize>,
    pub cons_dirs: Vec<bool>,
}

/// Build an authentic 1..=3 segment path from the reference MAC chain.
/// `seg_as[s]` = number of ASes in segment s (≥2); consecutive segments share their joint AS.
pub fn build_authentic(r: &mut Rng, seg_as: &[usize], cons_dirs: &[bool]) -> Authentic {
    let n_as: usize = seg_as.iter().sum::<usize>() - (seg_as.len() - 1);
    let as_keys: Vec<Key> = (0..n_as)
        .map(|_| {
            let mut k = [0u8; 16];
            r.fill(&mut k);
            k
        })
        .collect();
    let mut infos = Vec::new();
    let mut hops = Vec::new();
    let mut hop_owner = Vec::new();
    let mut seg_len = [0u8; 3];
    let mut first_as = 0usize;
    for (s, n) in seg_as.iter().enumerate() {
        let n = *n;
        seg_len[s] = n as u8;
        let cons = cons_dirs[s];
        // travel-order AS positions of this segment
        let travel: Vec<usize> = (first_as..first_as + n).collect();
        first_as += n - 1;
        // link interface ids between consecutive ASes of the segment: (egress of a, ingress of b)
        // in travel order
        let links: Vec<(u16, u16)> = (0..n - 1).map(|_| (r.range(1, 65535) as u16, r.range(1, 65535) as u16)).collect();
        let ts = match r.below(4) {
            0 => 0,
            1 => u32::MAX,
            _ => r.u32(),
        };
        // per travel position: (travel ingress if, travel egress if)
        let trav_if: Vec<(u16, u16)> = (0..n)
            .map(|i| (if i == 0 { 0 } else { links[i - 1].1 }, if i == n - 1 { 0 } else { links[i].0 }))
            .collect();
        // construction order = travel order if cons, else reversed
        let order: Vec<usize> = if cons { (0..n).collect() } else { (0..n).rev().collect() };
        let mut beta = r.u16();
        let beta0 = beta;
        let mut betas = Vec::new();
        let mut built: Vec<Option<RHop>> = vec![None; n];
        for ti in &order {
            let (tin, teg) = trav_if[*ti];
            let (cin, ceg) = if cons { (tin, teg) } else { (teg, tin) };
            let exp = r.u8();
            let mac = hop_mac(&as_keys[travel[*ti]], beta, ts, exp, cin, ceg);
            betas.push(beta);
            built[*ti] = Some(RHop { flags: 0, exp, cons_in: cin, cons_eg: ceg, mac });
            beta = beta_next(beta, &mac);
        }
        // SegID the sender must put: beta of the first hop in travel order
        let seg_id = if cons { beta0 } else { *betas.last().unwrap() };
        infos.push(RInfo { flags: cons as u8, rsv: 0, seg_id, timestamp: ts });
        for (ti, h) in built.into_iter().enumerate() {
            hops.push(h.unwrap());
            hop_owner.push(travel[ti]);
        }
    }
    Authentic {
        path: RStdPath { curr_inf: 0, curr_hf: 0, rsv: 0, seg_len, infos, hops },
        as_keys,
        hop_owner,
        cons_dirs: cons_dirs.to_vec(),
    }
}

#[derive(Debug, PartialEq, Eq, Clone)]
pub enum WalkEnd {
    Delivered { visits: usize },
    /// validation failed or the advance was refused at AS position `at`
    RejectedAt { at: usize, how: String },
    Panic(String),
    TooLong,
}

/// Walk `bytes` with the keys of the ASes in visiting order, starting from inside the first AS.
pub fn walk_with_keys(bytes: &mut [u8], keys: &[Key]) -> WalkEnd {
    let mut at = 0usize;
    loop {
        if at >= keys.len() {
            return WalkEnd::TooLong;
        }
        let k = &keys[at];
        let step = if at == 0 { Step::IngressInternal } else { Step::IngressExternal };
        match do_step(bytes, step, Some(k)) {
            Err(pn) => return WalkEnd::Panic(pn.0),
            Ok(Outcome::Err(e)) => return WalkEnd::RejectedAt { at, how: format!("ingress error: {e}") },
            Ok(Outcome::Ingress { valid: false, .. }) => return WalkEnd::RejectedAt { at, how: "ingress MAC".into() },
            Ok(Outcome::Ingress { cont: None, .. }) => return WalkEnd::Delivered { visits: at + 1 },
            Ok(Outcome::Ingress { cont: Some(_), .. }) => match do_step(bytes, Step::Egress, Some(k)) {
                Err(pn) => return WalkEnd::Panic(pn.0),
                Ok(Outcome::Err(e)) => return WalkEnd::RejectedAt { at, how: format!("egress error: {e}") },
                Ok(Outcome::Egress { valid: false, .. }) => return WalkEnd::RejectedAt { at, how: "egress MAC".into() },
                Ok(_) => {}
            },
            Ok(_) => unreachable!(),
        }
        at += 1;
    }
}

fn auth_json(a: &Authentic, bytes: &[u8]) -> serde_json::Value {
    json!({"kind": "authentic", "bytes": hex(bytes), "keys": a.as_keys.iter().map(|k| hex(k)).collect::<Vec<_>>(), "hop_owner": a.hop_owner, "seg_len": a.path.seg_len, "cons_dirs": a.cons_dirs})
}

fn check_authentic(a: &Authentic, mon: &mut Mon) -> Option<Vec<u8>> {
    let orig = a.path.encode();
    let mut bytes = orig.clone();
    mon.eval();
    mon.count("authentic_walks");
    let n_as = a.as_keys.len();
    let cls = (a.path.seg_len, a.cons_dirs.clone());
    match walk_with_keys(&mut bytes, &a.as_keys) {
        WalkEnd::Delivered { visits } if visits == n_as => {
            mon.shape(&("auth-fwd", &cls));
        }
        other => {
            mon.violation(
                format!("authentic-path-rejected:fwd:{:?}", a.cons_dirs),
                format!("authentic path over {n_as} ASes (segments {:?}, cons_dir {:?}) ended {other:?}", a.path.seg_len, a.cons_dirs),
                auth_json(a, &orig),
            );
            return None;
        }
    }
    // reply: reverse the delivered path and walk back
    let delivered = bytes.clone();
    let rev_ok = catch(|| StandardPathView::try_from_mut_slice(&mut bytes).unwrap().0.try_reverse().is_ok());
    if !matches!(rev_ok, Ok(true)) {
        mon.violation("delivered-path-not-reversible", format!("{rev_ok:?}"), auth_json(a, &orig));
        return None;
    }
    mon.eval();
    let rkeys: Vec<Key> = a.as_keys.iter().rev().cloned().collect();
    match walk_with_keys(&mut bytes, &rkeys) {
        WalkEnd::Delivered { visits } if visits == n_as => {
            mon.shape(&("auth-rev", &cls));
            mon.count("authentic_round_trips");
        }
        other => {
            mon.violation(
                format!("authentic-path-rejected:reverse:{:?}", a.cons_dirs),
                format!("reversed delivered path (segments {:?}, original cons_dir {:?}) ended {other:?}", a.path.seg_len, a.cons_dirs),
                auth_json(a, &orig),
            );
            return None;
        }
    }
    Some(delivered)
}

/// bit positions (within the path bytes) that are authenticated, with the travel index of the
/// earliest hop field they affect
fn authenticated_bits(p: &RStdPath) -> Vec<(usize, usize)> {
    let ni = RStdPath::n_infos(p.seg_len);
    let mut v = Vec::new();
    for s in 0..ni {
        let first_hop = p.seg_range(s).start;
        let base = 4 + 8 * s;
        // SegID (bytes 2..4) and timestamp (4..8)
        for bit in (16..64).map(|b| base * 8 + b) {
            v.push((bit, first_hop));
        }
    }
    for h in 0..p.hops.len() {
        let base = 4 + 8 * ni + 12 * h;
        // ExpTime .. MAC (bytes 1..12)
        for bit in (8..96).map(|b| base * 8 + b) {
            v.push((bit, h));
        }
    }
    v
}

fn check_tamper(a: &Authentic, flips: &[(usize, usize)], mon: &mut Mon) {
    let orig = a.path.encode();
    let mut bytes = orig.clone();
    let mut earliest = usize::MAX;
    for (bit, hop) in flips {
        bytes[bit / 8] ^= 0x80 >> (bit % 8);
        earliest = earliest.min(*hop);
    }
    if bytes == orig {
        return; // double flip of the same bit
    }
    let owner = a.hop_owner[earliest];
    mon.eval();
    mon.count("tamper_cases");
    let tampered = bytes.clone();
    let end = walk_with_keys(&mut bytes, &a.as_keys);
    let rj = || json!({"kind": "tamper", "bytes": hex(&orig), "tampered": hex(&tampered), "flips": flips.iter().map(|f| f.0).collect::<Vec<_>>(), "keys": a.as_keys.iter().map(|k| hex(k)).collect::<Vec<_>>(), "hop_owner": a.hop_owner, "owner_as": owner});
    match end {
        WalkEnd::RejectedAt { at, .. } if at <= owner => {
            mon.shape(&("tamper", a.path.seg_len, a.cons_dirs.clone(), flips.len(), owner, at));
        }
        WalkEnd::RejectedAt { at, how } => mon.violation(
            "tamper-detected-late",
            format!("corruption of hop field {earliest} (AS position {owner}) only rejected at AS position {at} ({how})"),
            rj(),
        ),
        WalkEnd::Delivered { .. } => mon.violation("tamper-undetected", format!("corrupted authenticated bit(s) {flips:?} but the path verified at every AS"), rj()),
        WalkEnd::Panic(m) => mon.violation("panic:tampered-walk", m, rj()),
        WalkEnd::TooLong => mon.violation("tamper-walk-too-long", "walk exceeded the number of ASes", rj()),
    }
}

fn shapes_for_auth(thorough: bool) -> Vec<Vec<usize>> {
    let max = if thorough { 4 } else { 3 };
    let mut v = Vec::new();
    for a in 2..=max {
        v.push(vec![a]);
        for b in 2..=max {
            v.push(vec![a, b]);
            for c in 2..=max {
                v.push(vec![a, b, c]);
            }
        }
    }
    v
}

pub fn run(args: &Args, mon: &mut Mon) -> (String, Vec<&'static str>) {
    mon.floor("sm_err", 1000);
    mon.floor("sm_ok", 1000);
    mon.floor("authentic_round_trips", 50);
    mon.floor("tamper_cases", 1000);
    mon.floor("bounded_walks", 500);
    let thorough = args.thorough();
    let miri = cfg!(miri);

    if let Some(path) = &args.replay {
        let v: serde_json::Value = serde_json::from_str(&std::fs::read_to_string(path).expect("replay")).unwrap();
        let bytes = unhex(v["bytes"].as_str().expect("bytes"));
        let (p, _) = RStdPath::decode(&bytes).expect("decodable");
        match v["kind"].as_str() {
            Some("sm") => {
                let steps: Vec<Step> = v["steps"]
                    .as_array()
                    .unwrap()
                    .iter()
                    .map(|s| match s.as_str().unwrap() {
                        "IngressInternal" => Step::IngressInternal,
                        "IngressExternal" => Step::IngressExternal,
                        _ => Step::Egress,
                    })
                    .collect();
                let key: Option<Key> = v["mac_validator"].as_str().map(|k| unhex(k).try_into().unwrap());
                check_sequence(&p, &steps, key.as_ref(), mon);
            }
            Some("walk") => check_bounded_walk(&p, v["first_internal"].as_bool().unwrap_or(false), mon),
            Some("authentic") | Some("tamper") => {
                let keys: Vec<Key> = v["keys"].as_array().unwrap().iter().map(|k| unhex(k.as_str().unwrap()).try_into().unwrap()).collect();
                let owner: Vec<usize> = v["hop_owner"].as_array().unwrap().iter().map(|x| x.as_u64().unwrap() as usize).collect();
                let a = Authentic { path: p.clone(), as_keys: keys, hop_owner: owner, cons_dirs: p.infos.iter().map(|i| i.cons_dir()).collect() };
                if v["kind"] == "authentic" {
                    check_authentic(&a, mon);
                } else {
                    let bits = authenticated_bits(&p);
                    let flips: Vec<(usize, usize)> = v["flips"].as_array().unwrap().iter().map(|b| *bits.iter().find(|x| x.0 == b.as_u64().unwrap() as usize).unwrap()).collect();
                    check_tamper(&a, &flips, mon);
                }
            }
            _ => panic!("unknown replay kind"),
        }
        return ("replay".into(), vec![]);
    }

    // ---- (A) exhaustive state machine
    let seg_vals: Vec<u8> = if thorough { vec![0, 1, 2, 3] } else { vec![0, 1, 2, 3] };
    let max_seq = if thorough { 4 } else { 3 };
    let hf_vals: Vec<u8> = if thorough { (0..64).collect() } else { vec![0, 1, 2, 3, 4, 5, 6, 7, 8, 9, 63] };
    let mut states: Vec<([u8; 3], u8, u8)> = Vec::new();
    for a in &seg_vals {
        for b in &seg_vals {
            for c in &seg_vals {
                for ci in 0..4u8 {
                    for ch in &hf_vals {
                        states.push(([*a, *b, *c], ci, *ch));
                    }
                }
            }
        }
    }
    let mut seqs: Vec<Vec<Step>> = vec![];
    for len in 1..=max_seq {
        let n = 3usize.pow(len as u32);
        for mut i in 0..n {
            let mut s = Vec::new();
            for _ in 0..len {
                s.push(STEPS[i % 3]);
                i /= 3;
            }
            seqs.push(s);
        }
    }
    // longer sequences are prefixes-closed: a sequence of length L contains all its prefixes, so
    // only maximal-length sequences need to be run
    let seqs: Vec<Vec<Step>> = seqs.into_iter().filter(|s| s.len() == max_seq).collect();
    let n_states = states.len() as u64;
    let stride = if miri { args.param_u64("stride", 331) } else { 1 };
    par_run(mon, args.threads, n_states, |i, m| {
        if !args.mine(i) || (stride > 1 && i % stride != args.seed % stride) {
            return;
        }
        let (s, ci, ch) = states[i as usize];
        // cons_dir / peer flag combinations: all 4 values of the two flag bits per info field are
        // covered by running 4 fills with forced flag patterns
        for fill in 0..4u64 {
            let mut r = Rng::fork(args.seed, i * 8 + fill);
            let mut p = gen_path(&mut r, s, ci, ch, true);
            for (k, inf) in p.infos.iter_mut().enumerate() {
                inf.flags = ((fill as u8 >> (k % 2)) & 1) | (((fill as u8 >> 1) & 1) << 1);
            }
            // router alert flags on some hops
            for h in p.hops.iter_mut() {
                h.flags = r.u8() & 3;
            }
            let key: Key = {
                let mut k = [0u8; 16];
                r.fill(&mut k);
                k
            };
            for seq in &seqs {
                check_sequence(&p, seq, None, m);
                if fill == 0 {
                    check_sequence(&p, seq, Some(&key), m);
                }
            }
            check_bounded_walk(&p, false, m);
            check_bounded_walk(&p, true, m);
        }
    });
    mon.note("state_machine_family", json!({"seg_len_values": seg_vals, "curr_hf_values": hf_vals.len(), "states": n_states, "step_sequences": seqs.len(), "sequence_length": max_seq}));

    // random large shapes / random bytes
    let scale = args.param_u64("scale", 1);
    let n_rand = if miri { 10 } else if thorough { 400_000 * scale } else { 40_000 * scale };
    par_run(mon, args.threads, n_rand, |i, m| {
        if !args.mine(i) {
            return;
        }
        let mut r = Rng::fork(args.seed, 0x1100_0000 + i);
        let s = [r.range(0, 63) as u8, if r.bool() { 0 } else { r.range(0, 63) as u8 }, if r.bool() { 0 } else { r.range(0, 40) as u8 }];
        let nh = RStdPath::n_hops(s) as u64;
        let ch = if nh > 0 && nh <= 64 && r.chance(3, 4) { r.below(nh) as u8 } else { r.u8() & 63 };
        let ci = r.below(4) as u8;
        let p = gen_path(&mut r, s, ci, ch, false);
        let seq: Vec<Step> = (0..6).map(|_| *r.pick(&STEPS)).collect();
        check_sequence(&p, &seq, None, m);
        check_bounded_walk(&p, r.bool(), m);
    });

    // ---- (B) + (C) authentic paths
    let shapes = shapes_for_auth(thorough);
    let mut auth_cases: Vec<(Vec<usize>, Vec<bool>)> = Vec::new();
    for sh in &shapes {
        for mask in 0..(1u32 << sh.len()) {
            auth_cases.push((sh.clone(), (0..sh.len()).map(|k| mask >> k & 1 == 1).collect()));
        }
    }
    let reps = if miri { 1 } else if thorough { 8 } else { 3 };
    let n_auth = auth_cases.len() as u64 * reps;
    let tamper_paths_budget: u64 = if miri { 2 } else if thorough { 2000 * scale } else { 120 * scale };
    par_run(mon, args.threads, n_auth, |i, m| {
        if !args.mine(i) || (miri && i % 29 != args.seed % 29) {
            return;
        }
        let (sh, dirs) = &auth_cases[(i / reps) as usize];
        let mut r = Rng::fork(args.seed, 0xA000_0000 + i);
        let a = build_authentic(&mut r, sh, dirs);
        if check_authentic(&a, m).is_none() {
            return;
        }
        // tamper: all single-bit flips for a budgeted number of paths, sampled double flips
        if i < tamper_paths_budget {
            let bits = authenticated_bits(&a.path);
            if miri {
                for _ in 0..6 {
                    let b = *r.pick(&bits);
                    check_tamper(&a, &[b], m);
                }
            } else {
                for b in &bits {
                    check_tamper(&a, &[*b], m);
                }
                for _ in 0..bits.len() {
                    let b1 = *r.pick(&bits);
                    let b2 = *r.pick(&bits);
                    check_tamper(&a, &[b1, b2], m);
                }
            }
        }
    });
    // larger authentic shapes, random
    let n_big = if miri { 2 } else if thorough { 20_000 * scale } else { 2_000 * scale };
    par_run(mon, args.threads, n_big, |i, m| {
        if !args.mine(i) {
            return;
        }
        let mut r = Rng::fork(args.seed, 0xB000_0000 + i);
        let nseg = r.range(1, 3) as usize;
        let sh: Vec<usize> = (0..nseg).map(|_| r.range(2, 20) as usize).collect();
        let dirs: Vec<bool> = (0..nseg).map(|_| r.bool()).collect();
        let a = build_authentic(&mut r, &sh, &dirs);
        if check_authentic(&a, m).is_some() && !miri {
            let bits = authenticated_bits(&a.path);
            for _ in 0..20 {
                let b = *r.pick(&bits);
                check_tamper(&a, &[b], m);
            }
        }
    });

    {
        let mut r = Rng::fork(args.seed, 7);
        let a = build_authentic(&mut r, &[3, 2], &[false, true]);
        let b = a.path.encode();
        mon.sample_labeled("authentic-up-down", || auth_json(&a, &b));
        let p = gen_path(&mut r, [2, 1, 2], 1, 2, true);
        let pb = p.encode();
        mon.sample_labeled("state-machine", || json!({"kind": "sm", "bytes": hex(&pb), "steps": ["IngressExternal", "Egress", "IngressExternal"]}));
    }

    (
        format!(
            "(A) every standard path with segment lengths in {seg_vals:?}^3 x curr_inf 0..3 x {} curr_hf values x 4 flag patterns, under every step sequence of length {max_seq} over {{ingress-internal, ingress-external, egress}} without validator (and with a MAC validator for one fill) plus a bounded router loop from each state [exhaustive over that family]; {n_rand} random larger shapes. (B) authentic paths for every segment-shape in 2..={} ASes per segment, 1-3 segments, every construction-direction assignment, x{reps}, walked forward and (after try_reverse) back with per-AS keys; (C) every single-bit flip of every authenticated bit of {tamper_paths_budget} of them plus sampled double flips. distinct = distinct (shape, outcome trace) tuples.",
            hf_vals.len(),
            if thorough { 4 } else { 3 }
        ),
        vec![
            "reference MAC input layout and SegID chaining in harness/refscion/src/mac.rs (from the data-plane spec); AES-CMAC primitive trusted",
            "atomicity is applied to Err(AdvanceError); a ValidationFailed result is, by the documented API contract, a completed advance carrying a verdict and is subject to the monotonicity clause only",
            "peering segments are not part of this family (the property's quantifier lists construction directions and entry modes only)",
            "a forged MAC passing by chance has probability 2^-48 per case and is ignored",
        ],
    )
}
