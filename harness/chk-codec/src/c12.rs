//! C12 — views and models agree; a failed operation leaves its operand untouched.
//!
//! Monitors (all on the real sciparse code, inputs built by the independent reference encoder):
//!  * byte snapshot before/after every fallible operation: `Err` ⇒ bytes identical, model identical;
//!  * `catch_unwind` around every call: no panic on any parseable path bytes;
//!  * differential: view op vs model op vs reference (spec) result on well-formed paths;
//!  * involution and logical-position preservation of reversal;
//!  * guard bytes around the view's buffer must stay untouched by every mutator.

use refscion::wire::{RHop, RInfo, RStdPath};
use sciparse::{
    core::{
        convert::ToModel,
        encode::WireEncode,
        view::View,
    },
    dataplane_path::{
        model::DpPath,
        onehop::{model::OneHopPath, view::OneHopPathView},
        standard::view::StandardPathView,
        view::{ScionDpPathView, ScionDpPathViewExt},
    },
    identifier::isd_asn::IsdAsn,
    path::ScionPath,
};
use serde_json::json;
use vmon::{Args, Mon, Rng, catch, hex, par_run, unhex};

const GUARD: usize = 16;
const GUARD_BYTE: u8 = 0xA5;

pub fn gen_path(r: &mut Rng, seg_len: [u8; 3], curr_inf: u8, curr_hf: u8, canonical: bool) -> RStdPath {
    let ni = RStdPath::n_infos(seg_len);
    let nh = RStdPath::n_hops(seg_len);
    let infos = (0..ni)
        .map(|_| RInfo {
            flags: if canonical { r.u8() & 3 } else { r.u8() },
            rsv: if canonical { 0 } else { r.u8() },
            seg_id: r.u16(),
            timestamp: match r.below(6) {
                0 => 0,
                1 => u32::MAX,
                2 => u32::MAX - r.below(90_000) as u32,
                _ => r.u32(),
            },
        })
        .collect();
    let hops = (0..nh)
        .map(|_| RHop {
            flags: if canonical { r.u8() & 3 } else { r.u8() },
            exp: match r.below(4) {
                0 => 0,
                1 => 255,
                _ => r.u8(),
            },
            cons_in: if r.chance(1, 8) { 0 } else { r.u16() },
            cons_eg: if r.chance(1, 8) { 0 } else { r.u16() },
            mac: {
                let mut m = [0u8; 6];
                r.fill(&mut m);
                m
            },
        })
        .collect();
    RStdPath { curr_inf, curr_hf, rsv: if canonical { 0 } else { r.u8() & 0x3f }, seg_len, infos, hops }
}

/// buffer with guard bytes on both sides; returns (buffer, range of the path bytes)
fn guarded(bytes: &[u8]) -> Vec<u8> {
    let mut v = vec![GUARD_BYTE; GUARD + bytes.len() + GUARD];
    v[GUARD..GUARD + bytes.len()].copy_from_slice(bytes);
    v
}

fn guards_intact(buf: &[u8], n: usize) -> bool {
    buf[..GUARD].iter().all(|b| *b == GUARD_BYTE) && buf[GUARD + n..].iter().all(|b| *b == GUARD_BYTE)
}

fn case_json(p: &RStdPath, bytes: &[u8]) -> serde_json::Value {
    json!({"kind": "std-path", "seg_len": p.seg_len, "curr_inf": p.curr_inf, "curr_hf": p.curr_hf, "bytes": hex(bytes)})
}

fn shape_key(p: &RStdPath) -> (u8, u8, u8, u8, u8, bool) {
    let nh = RStdPath::n_hops(p.seg_len) as u8;
    // pointer class relative to the shape, not the raw value
    let hf_class = if p.curr_hf >= nh { 250 } else if p.curr_hf + 1 == nh { 251 } else { p.curr_hf.min(8) };
    (p.seg_len[0].min(5), p.seg_len[1].min(5), p.seg_len[2].min(5), p.curr_inf, hf_class, p.well_formed())
}

/// All standard-path checks for one reference path.
pub fn check_std_path(p: &RStdPath, mon: &mut Mon) {
    let bytes = p.encode();
    let wf = p.well_formed();
    let sk = shape_key(p);

    // ---- construction: view size must equal the reference wire length
    mon.eval();
    let parsed = catch(|| StandardPathView::try_from_slice(&bytes).map(|(v, rest)| (v.as_slice().len(), rest.len())));
    match parsed {
        Err(pn) => {
            mon.violation(format!("panic:StandardPathView::try_from_slice:{}", pn.site()), pn.0, case_json(p, &bytes));
            return;
        }
        Ok(Err(e)) => {
            mon.violation("view-rejects-sized-path", format!("try_from_slice failed on a buffer of exactly the wire length: {e}"), case_json(p, &bytes));
            return;
        }
        Ok(Ok((vl, rest))) => {
            if vl != bytes.len() || rest != 0 {
                mon.violation("view-size-mismatch", format!("view len {vl} rest {rest}, reference wire length {}", bytes.len()), case_json(p, &bytes));
                return;
            }
        }
    }

    // ---- try_reverse on the view: atomicity, totality, agreement with reference and model
    {
        mon.eval();
        mon.count("reverse_calls");
        let mut buf = guarded(&bytes);
        let n = bytes.len();
        let r = catch(|| {
            let (v, _) = StandardPathView::try_from_mut_slice(&mut buf[GUARD..GUARD + n]).expect("parsed before");
            v.try_reverse().map_err(|e| e.to_string())
        });
        let after = buf[GUARD..GUARD + n].to_vec();
        if !guards_intact(&buf, n) {
            mon.violation("guard-bytes-changed:StandardPathView::try_reverse", "bytes outside the view were written", case_json(p, &bytes));
        }
        let view_result: Option<bool> = match &r {
            Ok(Ok(())) => Some(true),
            Ok(Err(_)) => Some(false),
            Err(_) => None,
        };
        match r {
            Err(pn) => mon.violation(format!("panic:StandardPathView::try_reverse:{}", pn.site()), pn.0, case_json(p, &bytes)),
            Ok(Err(e)) => {
                mon.count("reverse_err");
                mon.shape(&("rev-err", sk));
                if after != bytes {
                    mon.violation(
                        "non-atomic:StandardPathView::try_reverse",
                        format!("try_reverse returned Err({e}) but changed the path bytes: {} -> {}", hex(&bytes[..4]), hex(&after[..4])),
                        case_json(p, &bytes),
                    );
                }
                if wf {
                    mon.violation("rejects-wellformed:StandardPathView::try_reverse", format!("well-formed path not reversible: {e}"), case_json(p, &bytes));
                }
            }
            Ok(Ok(())) => {
                mon.count("reverse_ok");
                mon.shape(&("rev-ok", sk));
                if wf {
                    let expect = p.reversed().expect("well-formed").encode();
                    if after != expect {
                        mon.violation(
                            "wrong-result:StandardPathView::try_reverse",
                            format!("reversed bytes differ from the spec reversal: meta {} vs {}", hex(&after[..4]), hex(&expect[..4])),
                            case_json(p, &bytes),
                        );
                    }
                    // involution
                    let mut twice = after.clone();
                    let r2 = catch(|| StandardPathView::try_from_mut_slice(&mut twice).expect("same size").0.try_reverse().is_ok());
                    if !matches!(r2, Ok(true)) || twice != bytes {
                        mon.violation("not-involutive:StandardPathView::try_reverse", "reverse(reverse(p)) != p", case_json(p, &bytes));
                    }
                }
            }
        }

        // model side
        mon.eval();
        let m0 = catch(|| StandardPathView::try_from_slice(&bytes).unwrap().0.to_model());
        match m0 {
            Err(pn) => mon.violation(format!("panic:StandardPathView::to_model:{}", pn.site()), pn.0, case_json(p, &bytes)),
            Ok(model) => {
                // Agreement domain of the property: every model the encoder accepts (at every
                // current-hop / current-info position, also inconsistent ones) and its encoding.
                let in_domain = matches!(catch(|| model.try_encode_to_vec()), Ok(Ok(ref e)) if *e == bytes);
                if in_domain {
                    mon.count("agreement_domain_cases");
                    let mut mm = model.clone();
                    if let (Ok(mres), Some(vres)) = (catch(|| mm.try_reverse().is_ok()), view_result) {
                        if mres != vres {
                            mon.violation("view-model-disagree:try_reverse-result", format!("view try_reverse ok={vres}, model try_reverse ok={mres}"), case_json(p, &bytes));
                        } else if mres {
                            match catch(|| mm.try_encode_to_vec()) {
                                Ok(Ok(enc)) => {
                                    if enc != after {
                                        mon.violation(
                                            "view-model-disagree:try_reverse",
                                            format!("view reversal gives meta {}, encode(model reversal) gives meta {}", hex(&after[..4]), hex(&enc[..4])),
                                            case_json(p, &bytes),
                                        );
                                    }
                                    // reversal is its own inverse on the whole domain
                                    let mut twice = after.clone();
                                    let r2 = catch(|| StandardPathView::try_from_mut_slice(&mut twice).expect("same size").0.try_reverse().is_ok());
                                    if !matches!(r2, Ok(true)) || twice != bytes {
                                        mon.violation("not-involutive:StandardPathView::try_reverse", "reverse(reverse(p)) != p on an encoder-accepted path", case_json(p, &bytes));
                                    }
                                }
                                // reversed pointer not representable (paths with > 64 hop fields)
                                Ok(Err(_)) => mon.count("reversed_model_unencodable"),
                                Err(pn) => mon.violation(format!("panic:StandardPath::try_encode_to_vec:{}", pn.site()), pn.0, case_json(p, &bytes)),
                            }
                        }
                    }
                }
                let mut m = model.clone();
                match catch(|| m.try_reverse()) {
                    Err(pn) => mon.violation(format!("panic:StandardPath::try_reverse:{}", pn.site()), pn.0, case_json(p, &bytes)),
                    Ok(Err(_)) => {
                        if m != model {
                            mon.violation("non-atomic:StandardPath::try_reverse", "model changed although try_reverse returned Err", case_json(p, &bytes));
                        }
                        if wf {
                            mon.violation("rejects-wellformed:StandardPath::try_reverse", "model of a well-formed path not reversible", case_json(p, &bytes));
                        }
                    }
                    Ok(Ok(())) => {
                        if wf {
                            // view/model agreement on well-formed, canonical paths
                            match catch(|| m.try_encode_to_vec()) {
                                Ok(Ok(enc)) => {
                                    let canon = canonical(p);
                                    if canon && enc != p.reversed().unwrap().encode() {
                                        mon.violation("view-model-disagree:try_reverse", "encode(model.try_reverse()) != reversed view bytes", case_json(p, &bytes));
                                    }
                                }
                                // the encoder may refuse paths that do not fit a SCION header (size
                                // limit); but then it must also have refused the un-reversed model
                                Ok(Err(e)) => {
                                    if model.try_encode_to_vec().is_ok() {
                                        mon.violation("model-unencodable-after-reverse", format!("{e}"), case_json(p, &bytes));
                                    }
                                }
                                Err(pn) => mon.violation(format!("panic:StandardPath::try_encode_to_vec:{}", pn.site()), pn.0, case_json(p, &bytes)),
                            }
                        }
                    }
                }
                // to_model → encode is the identity on canonical well-formed paths
                if wf && canonical(p) {
                    mon.eval();
                    match catch(|| model.try_encode_to_vec()) {
                        Ok(Ok(enc)) if enc == bytes => {}
                        Ok(Ok(_)) => mon.violation("view-model-disagree:to_model-encode", "encode(to_model(view)) != view bytes", case_json(p, &bytes)),
                        // "all models accepted by the encoder": a refusal (e.g. the path does not
                        // fit the 1020-byte SCION header) takes the case out of the agreement
                        // family; small paths must be accepted though
                        Ok(Err(e)) => {
                            mon.count("encoder_refused");
                            if bytes.len() <= 900 {
                                mon.violation("model-rejects-wellformed", format!("encoder rejects the model of a well-formed path of {} bytes: {e}", bytes.len()), case_json(p, &bytes));
                            }
                        }
                        Err(pn) => mon.violation(format!("panic:StandardPath::try_encode_to_vec:{}", pn.site()), pn.0, case_json(p, &bytes)),
                    }
                }
                // expiry: view vs model vs reference
                mon.eval();
                let ve = catch(|| StandardPathView::try_from_slice(&bytes).unwrap().0.expiration());
                let me = catch(|| model.expiration());
                match (&ve, &me) {
                    (Err(pn), _) => mon.violation(format!("panic:StandardPathView::expiration:{}", pn.site()), pn.0.clone(), case_json(p, &bytes)),
                    (_, Err(pn)) => mon.violation(format!("panic:StandardPath::expiration:{}", pn.site()), pn.0.clone(), case_json(p, &bytes)),
                    (Ok(v), Ok(m)) => {
                        let prefix_valid = p.seg_len[0] > 0 && !(p.seg_len[1] == 0 && p.seg_len[2] > 0);
                        if prefix_valid {
                            let re = p.expiry().expect("prefix valid");
                            if *v != re || *m != re {
                                mon.violation(
                                    "expiry-disagree",
                                    format!("expiration: view {v}, model {m}, reference {re}"),
                                    case_json(p, &bytes),
                                );
                            }
                        }
                    }
                }
            }
        }
    }

    // ---- queries: counts, segments(), interfaces, Display/Debug — totality on everything,
    //      agreement with the reference on prefix-valid paths
    {
        mon.eval();
        let q = catch(|| {
            let (v, _) = StandardPathView::try_from_slice(&bytes).unwrap();
            let segs: Vec<(u16, usize)> = v.segments().map(|(i, h)| (i.segment_id(), h.len())).collect();
            let _ = format!("{v}");
            let _ = format!("{v:?}");
            let dp = sciparse::dataplane_path::view::ScionDpPathViewRef::Standard(v);
            (
                v.hop_field_count(),
                v.info_field_count(),
                segs,
                dp.first_egress_interface(),
                dp.last_ingress_interface(),
                dp.current_egress_interface(),
                dp.current_ingress_interface(),
                v.calculate_segment_index(p.curr_hf as usize),
            )
        });
        match q {
            Err(pn) => mon.violation(format!("panic:StandardPathView-queries:{}", pn.site()), pn.0, case_json(p, &bytes)),
            Ok((nh, ni, segs, fe, li, ce, ci, segidx)) => {
                let prefix_valid = p.seg_len[0] > 0 && !(p.seg_len[1] == 0 && p.seg_len[2] > 0);
                if nh as usize != RStdPath::n_hops(p.seg_len) || ni as usize != RStdPath::n_infos(p.seg_len) {
                    mon.violation("count-disagree", format!("hop/info count {nh}/{ni}"), case_json(p, &bytes));
                }
                if prefix_valid {
                    let want: Vec<(u16, usize)> = (0..p.n_segments()).map(|s| (p.infos[s].seg_id, p.seg_len[s] as usize)).collect();
                    if segs != want {
                        mon.violation("segments-disagree", format!("segments() = {segs:?}, reference {want:?}"), case_json(p, &bytes));
                    }
                    let first = &p.hops[0];
                    let fi = &p.infos[0];
                    let want_fe = if fi.cons_dir() { first.cons_eg } else { first.cons_in };
                    let last = p.hops.last().unwrap();
                    let lin = p.infos.last().unwrap();
                    let want_li = if lin.cons_dir() { last.cons_in } else { last.cons_eg };
                    if fe != Some(want_fe) || li != Some(want_li) {
                        mon.violation("interface-disagree", format!("first egress {fe:?} (ref {want_fe}), last ingress {li:?} (ref {want_li})"), case_json(p, &bytes));
                    }
                    if p.well_formed() {
                        let h = &p.hops[p.curr_hf as usize];
                        let i = &p.infos[p.curr_inf as usize];
                        let (win, weg) = if i.cons_dir() { (h.cons_in, h.cons_eg) } else { (h.cons_eg, h.cons_in) };
                        if ce != Some(weg) || ci != Some(win) {
                            mon.violation("interface-disagree:current", format!("current egress/ingress {ce:?}/{ci:?}, reference {weg}/{win}"), case_json(p, &bytes));
                        }
                        if segidx.map(|s| s.0) != Some(p.curr_inf as usize) {
                            mon.violation("segment-index-disagree", format!("{segidx:?}"), case_json(p, &bytes));
                        }
                    }
                }
            }
        }
    }

    // ---- ScionDpPathView / DpPath / ScionPath wrappers
    {
        mon.eval();
        let r = catch(|| {
            let boxed = StandardPathView::try_from_boxed(bytes.clone().into_boxed_slice()).expect("exact size");
            let dp = ScionDpPathView::Standard(boxed);
            let src = IsdAsn::from_u64(0x0001_ff00_0000_0110);
            let dst = IsdAsn::from_u64(0x0002_ff00_0000_0220);
            let mut sp = ScionPath::new(src, dst, dp.clone(), None, None);
            let snapshot = sp.clone();
            let res = sp.try_reverse().map_err(|e| e.to_string());
            let mut model = DpPath::from_view(&dp.as_ref());
            let model_snapshot = model.clone();
            let mres = model.try_reverse().is_ok();
            (res, snapshot, sp, mres, model_snapshot, model)
        });
        match r {
            Err(pn) => mon.violation(format!("panic:ScionPath::try_reverse:{}", pn.site()), pn.0, case_json(p, &bytes)),
            Ok((res, snapshot, sp, mres, model_snapshot, model)) => {
                match res {
                    Err(_) => {
                        if sp != snapshot {
                            mon.violation("non-atomic:ScionPath::try_reverse", "ScionPath changed although try_reverse returned Err", case_json(p, &bytes));
                        }
                    }
                    Ok(()) => {
                        if sp.src_ia() != snapshot.dst_ia() || sp.dst_ia() != snapshot.src_ia() {
                            mon.violation("scionpath-reverse-endpoints", "src/dst not swapped", case_json(p, &bytes));
                        }
                        if wf {
                            let want = p.reversed().unwrap().encode();
                            if sp.dp_path().as_slice() != &want[..] {
                                mon.violation("wrong-result:ScionPath::try_reverse", "dp path bytes differ from the spec reversal", case_json(p, &bytes));
                            }
                            // fingerprint must be that of a freshly built reversed path
                            let fresh = catch(|| ScionPath::new(sp.src_ia(), sp.dst_ia(), sp.dp_path().clone(), None, None));
                            if let Ok(f) = fresh {
                                if f.fingerprint() != sp.fingerprint() {
                                    mon.violation("stale-fingerprint:ScionPath::try_reverse", "fingerprint after reverse differs from a freshly built path", case_json(p, &bytes));
                                }
                            }
                            if sp.expiration() != snapshot.expiration() {
                                mon.violation("expiry-changes-on-reverse", format!("{:?} -> {:?}", snapshot.expiration(), sp.expiration()), case_json(p, &bytes));
                            }
                        }
                    }
                }
                if !mres && model != model_snapshot {
                    mon.violation("non-atomic:DpPath::try_reverse", "DpPath changed although try_reverse returned Err", case_json(p, &bytes));
                }
            }
        }
    }
}

fn canonical(p: &RStdPath) -> bool {
    p.rsv == 0 && p.infos.iter().all(|i| i.rsv == 0)
}

// ---------------------------------------------------------------------------------------------
// one-hop paths

fn check_onehop(r: &mut Rng, mon: &mut Mon) {
    let info = RInfo { flags: r.u8() & 3, rsv: 0, seg_id: r.u16(), timestamp: *r.pick(&[0u32, 1, u32::MAX, u32::MAX - 300, u32::MAX - 90_000, 1_700_000_000]) };
    let mk = |r: &mut Rng| RHop {
        flags: r.u8() & 3,
        exp: *r.pick(&[0u8, 1, 63, 255]),
        cons_in: if r.chance(1, 3) { 0 } else { r.u16() },
        cons_eg: if r.chance(1, 3) { 0 } else { r.u16() },
        mac: [r.u8(), r.u8(), r.u8(), r.u8(), r.u8(), r.u8()],
    };
    let hops = [mk(r), mk(r)];
    let mut bytes = Vec::new();
    refscion::wire::encode_info(&info, &mut bytes);
    refscion::wire::encode_hop(&hops[0], &mut bytes);
    refscion::wire::encode_hop(&hops[1], &mut bytes);
    let cj = json!({"kind": "onehop", "bytes": hex(&bytes)});
    mon.eval();
    mon.count("onehop_cases");
    mon.shape(&("onehop", info.flags, hops[1].cons_in == 0, info.timestamp > u32::MAX - 100_000));

    let mut buf = guarded(&bytes);
    let n = bytes.len();
    let res = catch(|| {
        let (v, _) = OneHopPathView::try_from_mut_slice(&mut buf[GUARD..GUARD + n]).expect("32 bytes");
        let model_before: OneHopPath = v.to_model();
        let vexp = catch(|| v.expiration());
        let r = v.try_reverse().is_ok();
        (r, model_before, vexp)
    });
    let after = buf[GUARD..GUARD + n].to_vec();
    if !guards_intact(&buf, n) {
        mon.violation("guard-bytes-changed:OneHopPathView::try_reverse", "bytes outside the view were written", cj.clone());
    }
    match res {
        Err(pn) => mon.violation(format!("panic:OneHopPathView:{}", pn.site()), pn.0, cj.clone()),
        Ok((ok, model_before, vexp)) => {
            if !ok && after != bytes {
                mon.violation("non-atomic:OneHopPathView::try_reverse", "Err but bytes changed", cj.clone());
            }
            let mut m = model_before.clone();
            let mok = catch(|| m.try_reverse().is_ok());
            match mok {
                Err(pn) => mon.violation(format!("panic:OneHopPath::try_reverse:{}", pn.site()), pn.0, cj.clone()),
                Ok(mok) => {
                    if mok != ok {
                        mon.violation("view-model-disagree:onehop-reverse-result", format!("view ok={ok}, model ok={mok}"), cj.clone());
                    }
                    if !mok && m != model_before {
                        mon.violation("non-atomic:OneHopPath::try_reverse", "Err but model changed", cj.clone());
                    }
                    if ok && mok {
                        match catch(|| m.try_encode_to_vec()) {
                            Ok(Ok(enc)) if enc == after => {}
                            Ok(Ok(_)) => mon.violation("view-model-disagree:onehop-reverse", "encode(model reversed) != view reversed", cj.clone()),
                            Ok(Err(e)) => mon.violation("model-unencodable-after-reverse:onehop", format!("{e}"), cj.clone()),
                            Err(pn) => mon.violation(format!("panic:OneHopPath::try_encode_to_vec:{}", pn.site()), pn.0, cj.clone()),
                        }
                        // involution
                        let mut twice = after.clone();
                        let ok2 = catch(|| OneHopPathView::try_from_mut_slice(&mut twice).unwrap().0.try_reverse().is_ok());
                        // reversing back requires the (new) second hop to have an ingress; only
                        // judge the involution when it was possible
                        if matches!(ok2, Ok(true)) && twice != bytes {
                            mon.violation("not-involutive:OneHopPathView::try_reverse", "reverse(reverse(p)) != p", cj.clone());
                        }
                    }
                }
            }
            // the same one-hop path behind the generic wrappers (DpPath model, ScionPath):
            // a refused reversal must leave the operand as it was
            {
                let mut dp = DpPath::OneHop(model_before.clone());
                let snap = dp.clone();
                match catch(|| dp.try_reverse().is_ok()) {
                    Err(pn) => mon.violation(format!("panic:DpPath::try_reverse:{}", pn.site()), pn.0, cj.clone()),
                    Ok(false) => {
                        mon.count("onehop_wrapper_reverse_err");
                        if dp != snap {
                            mon.violation("non-atomic:DpPath::try_reverse", "one-hop DpPath changed although try_reverse returned Err", cj.clone());
                        }
                    }
                    Ok(true) => {
                        mon.count("onehop_wrapper_reverse_ok");
                        if !matches!(dp, DpPath::Standard(_)) || catch(|| dp.try_encode_to_vec().is_ok()).ok() != Some(true) {
                            mon.violation("wrong-result:DpPath::try_reverse:onehop", "a reversed one-hop path is not an encodable standard path", cj.clone());
                        }
                    }
                }
                let src = IsdAsn::from_u64(0x0001_ff00_0000_0110);
                let dst = IsdAsn::from_u64(0x0002_ff00_0000_0220);
                let made = catch(|| {
                    let (v, _) = OneHopPathView::try_from_slice(&bytes).expect("32 bytes");
                    ScionPath::new(src, dst, ScionDpPathView::OneHop(v.clone()), None, None)
                });
                if let Ok(sp0) = made {
                    let mut sp = sp0.clone();
                    match catch(|| sp.try_reverse().is_ok()) {
                        Err(pn) => mon.violation(format!("panic:ScionPath::try_reverse:{}", pn.site()), pn.0, cj.clone()),
                        Ok(false) if sp != sp0 => mon.violation("non-atomic:ScionPath::try_reverse", "one-hop ScionPath changed although try_reverse returned Err", cj.clone()),
                        Ok(true) if sp.src_ia() != dst || sp.dst_ia() != src => mon.violation("scionpath-reverse-endpoints", "src/dst not swapped (one-hop)", cj.clone()),
                        Ok(_) => {}
                    }
                    // the consuming form hands the original back on failure
                    match catch(|| sp0.clone().try_into_reversed()) {
                        Err(pn) => mon.violation(format!("panic:ScionPath::try_into_reversed:{}", pn.site()), pn.0, cj.clone()),
                        Ok(Err((back, _))) if back != sp0 => mon.violation("non-atomic:ScionPath::try_into_reversed", "the path handed back with the error differs from the original", cj.clone()),
                        Ok(_) => {}
                    }
                }
            }
            // expiry: earliest hop expiry, saturating like the standard path (reference)
            let rel = |e: u8| ((e as u64 + 1) * 3375) / 10;
            let want = (info.timestamp as u64 + rel(hops[0].exp.min(hops[1].exp))).min(u32::MAX as u64) as u32;
            match vexp {
                Err(pn) => mon.violation(format!("panic:OneHopPathView::expiration:{}", pn.site()), pn.0, cj.clone()),
                Ok(v) => {
                    if v != want {
                        mon.violation("expiry-disagree:onehop", format!("view expiration {v}, reference {want}"), cj.clone());
                    }
                }
            }
        }
    }
}

// ---------------------------------------------------------------------------------------------

fn seg_values(thorough: bool) -> Vec<u8> {
    if thorough { vec![0, 1, 2, 3, 4, 62, 63] } else { vec![0, 1, 2, 3] }
}

pub fn run(args: &Args, mon: &mut Mon) -> (String, Vec<&'static str>) {
    mon.floor("reverse_ok", 100);
    mon.floor("reverse_err", 100);
    mon.floor("onehop_cases", 100);
    mon.floor("onehop_wrapper_reverse_err", 10);
    mon.floor("agreement_domain_cases", 100);

    if let Some(path) = &args.replay {
        let v: serde_json::Value = serde_json::from_str(&std::fs::read_to_string(path).expect("replay")).unwrap();
        let bytes = unhex(v["bytes"].as_str().expect("bytes"));
        if v["kind"] == "std-path" {
            let (p, _) = RStdPath::decode(&bytes).expect("decodable");
            check_std_path(&p, mon);
        }
        return ("replay".into(), vec![]);
    }

    let thorough = args.thorough();
    let segs = seg_values(thorough);
    let mut shapes: Vec<[u8; 3]> = Vec::new();
    for a in &segs {
        for b in &segs {
            for c in &segs {
                shapes.push([*a, *b, *c]);
            }
        }
    }
    let hf_values: Vec<u8> = if thorough { (0..64).collect() } else { vec![0, 1, 2, 3, 4, 5, 6, 7, 8, 9, 10, 62, 63] };
    let fills = if thorough { 4 } else { 3 };
    let mut cases: Vec<([u8; 3], u8, u8)> = Vec::new();
    for s in &shapes {
        for ci in 0..4u8 {
            for ch in &hf_values {
                cases.push((*s, ci, *ch));
            }
        }
    }
    let n_exh = cases.len() as u64;
    let miri = cfg!(miri);
    let stride = if miri { args.param_u64("stride", 97) } else { 1 };
    par_run(mon, args.threads, n_exh, |i, m| {
        if !args.mine(i) || (stride > 1 && i % stride != (args.seed % stride)) {
            return;
        }
        let (s, ci, ch) = cases[i as usize];
        for f in 0..fills {
            let mut r = Rng::fork(args.seed, i * 16 + f);
            let p = gen_path(&mut r, s, ci, ch, f != 2);
            m.count("exhaustive_cases");
            check_std_path(&p, m);
        }
    });

    // random shapes beyond the exhaustive family
    let scale = args.param_u64("scale", 1);
    let n_rand: u64 = if miri { args.param_u64("rand", 40) } else if thorough { 2_000_000 * scale } else { 150_000 * scale };
    par_run(mon, args.threads, n_rand, |i, m| {
        if !args.mine(i) {
            return;
        }
        let mut r = Rng::fork(args.seed, 0x1200_0000 + i);
        let pick = |r: &mut Rng| -> u8 {
            match r.below(5) {
                0 => 0,
                1 => r.range(1, 4) as u8,
                2 => r.range(1, 21) as u8,
                3 => 63,
                _ => r.range(0, 63) as u8,
            }
        };
        let s = [pick(&mut r), pick(&mut r), pick(&mut r)];
        let nh = RStdPath::n_hops(s) as u64;
        let ch = if nh > 0 && r.chance(3, 4) { r.below(nh.min(64)) as u8 } else { r.u8() & 63 };
        let ci = if r.chance(1, 2) {
            // matching info index most of the time
            let tmp = RStdPath { curr_inf: 0, curr_hf: ch, rsv: 0, seg_len: s, infos: vec![], hops: vec![] };
            tmp.segment_of(ch as usize).unwrap_or(0) as u8
        } else {
            r.below(4) as u8
        };
        let canon = r.chance(3, 4);
        let p = gen_path(&mut r, s, ci, ch, canon);
        m.count("random_cases");
        check_std_path(&p, m);
    });

    let n_onehop: u64 = if miri { 30 } else if thorough { 200_000 * scale } else { 20_000 * scale };
    {
        let mut r = Rng::fork(args.seed, 0x0e0e);
        for _ in 0..n_onehop {
            check_onehop(&mut r, mon);
        }
    }

    {
        let mut r = Rng::fork(args.seed, 99);
        let p = gen_path(&mut r, [2, 3, 0], 1, 60, true);
        let b = p.encode();
        mon.sample_labeled("malformed-pointer", || case_json(&p, &b));
        let p = gen_path(&mut r, [2, 2, 2], 1, 3, true);
        let b = p.encode();
        mon.sample_labeled("well-formed", || case_json(&p, &b));
        let p = gen_path(&mut r, [2, 0, 3], 0, 1, true);
        let b = p.encode();
        mon.sample_labeled("zero-middle-segment", || case_json(&p, &b));
    }
    mon.note("exhaustive_family", json!({"seg_len_values": segs, "curr_inf": "0..=3", "curr_hf": hf_values, "fills_per_case": fills, "cases": n_exh}));

    (
        format!(
            "standard-path byte strings built by the reference encoder for every (seg0,seg1,seg2) in {segs:?}^3 x curr_inf 0..3 x curr_hf in {} values x {fills} random fills (exhaustive over the shape/pointer family, incl. zero-length prefix/middle segments and out-of-range pointers), plus {n_rand} random shapes up to 63 hops per segment and {n_onehop} one-hop paths; on each: try_reverse (view, model, DpPath, ScionPath), expiration, counts, segments(), interface queries, Display/Debug, to_model/encode, under byte snapshots, guard bytes and panic capture. distinct = distinct (shape class, pointer class, well-formedness, outcome) tuples.",
            hf_values.len()
        ),
        vec![
            "reference reversal / expiry / wire layout in harness/refscion (written from the SCION data-plane spec)",
            "agreement clauses are judged on well-formed (spec-valid) paths only; atomicity and totality on every parseable byte string",
        ],
    )
}
