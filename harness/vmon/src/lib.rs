//! Monitor runtime shared by all check binaries: seeded PRNG, three-valued verdict bookkeeping,
//! panic capture, per-engine report writer. No dependency on the code under test.

use std::{
    cell::RefCell,
    collections::{BTreeMap, BTreeSet},
    hash::{Hash, Hasher},
    panic::{self, AssertUnwindSafe},
    sync::Once,
    time::Instant,
};

use serde_json::{Value, json};

pub mod alloc;

// ---------------------------------------------------------------------------------------------
// PRNG (xoshiro256** seeded via splitmix64); deterministic, no deps.

#[derive(Clone, Debug)]
pub struct Rng {
    s: [u64; 4],
}

fn splitmix(x: &mut u64) -> u64 {
    *x = x.wrapping_add(0x9E3779B97F4A7C15);
    let mut z = *x;
    z = (z ^ (z >> 30)).wrapping_mul(0xBF58476D1CE4E5B9);
    z = (z ^ (z >> 27)).wrapping_mul(0x94D049BB133111EB);
    z ^ (z >> 31)
}

impl Rng {
    pub fn new(seed: u64) -> Self {
        let mut x = seed ^ 0x5DEECE66D;
        Rng {
            s: [
                splitmix(&mut x),
                splitmix(&mut x),
                splitmix(&mut x),
                splitmix(&mut x),
            ],
        }
    }

    /// Independent stream derived from this seed and a label (e.g. case index).
    pub fn fork(seed: u64, label: u64) -> Self {
        Rng::new(seed.wrapping_mul(0x2545F4914F6CDD1D) ^ label.wrapping_mul(0x9E3779B97F4A7C15))
    }

    pub fn u64(&mut self) -> u64 {
        let r = self.s[1].wrapping_mul(5).rotate_left(7).wrapping_mul(9);
        let t = self.s[1] << 17;
        self.s[2] ^= self.s[0];
        self.s[3] ^= self.s[1];
        self.s[1] ^= self.s[2];
        self.s[0] ^= self.s[3];
        self.s[2] ^= t;
        self.s[3] = self.s[3].rotate_left(45);
        r
    }

    pub fn u32(&mut self) -> u32 {
        (self.u64() >> 32) as u32
    }

    pub fn u16(&mut self) -> u16 {
        (self.u64() >> 48) as u16
    }

    pub fn u8(&mut self) -> u8 {
        (self.u64() >> 56) as u8
    }

    /// uniform in 0..n (n>0)
    pub fn below(&mut self, n: u64) -> u64 {
        debug_assert!(n > 0);
        ((self.u64() as u128 * n as u128) >> 64) as u64
    }

    pub fn usize(&mut self, n: usize) -> usize {
        self.below(n as u64) as usize
    }

    /// uniform in lo..=hi
    pub fn range(&mut self, lo: u64, hi: u64) -> u64 {
        lo + self.below(hi - lo + 1)
    }

    pub fn bool(&mut self) -> bool {
        self.u64() & 1 == 1
    }

    /// true with probability num/den
    pub fn chance(&mut self, num: u64, den: u64) -> bool {
        self.below(den) < num
    }

    pub fn pick<'a, T>(&mut self, xs: &'a [T]) -> &'a T {
        &xs[self.usize(xs.len())]
    }

    pub fn fill(&mut self, buf: &mut [u8]) {
        for c in buf.chunks_mut(8) {
            let v = self.u64().to_le_bytes();
            c.copy_from_slice(&v[..c.len()]);
        }
    }

    pub fn bytes(&mut self, n: usize) -> Vec<u8> {
        let mut v = vec![0u8; n];
        self.fill(&mut v);
        v
    }

    /// random bytes of a random length in 0..max
    pub fn bytes_upto(&mut self, max: usize) -> Vec<u8> {
        let n = self.usize(max.max(1));
        self.bytes(n)
    }

    /// random bytes with a length picked from `lens`
    pub fn bytes_pick(&mut self, lens: &[usize]) -> Vec<u8> {
        let n = *self.pick(lens);
        self.bytes(n)
    }

    pub fn shuffle<T>(&mut self, xs: &mut [T]) {
        for i in (1..xs.len()).rev() {
            let j = self.usize(i + 1);
            xs.swap(i, j);
        }
    }
}

// ---------------------------------------------------------------------------------------------
// Panic capture

thread_local! {
    static LAST_PANIC: RefCell<Option<String>> = const { RefCell::new(None) };
    static CAPTURING: RefCell<bool> = const { RefCell::new(false) };
}
static HOOK: Once = Once::new();

fn install_hook() {
    HOOK.call_once(|| {
        let prev = panic::take_hook();
        panic::set_hook(Box::new(move |info| {
            let capturing = CAPTURING.with(|c| *c.borrow());
            if capturing {
                let loc = info
                    .location()
                    .map(|l| format!("{}:{}", l.file(), l.line()))
                    .unwrap_or_default();
                let msg = if let Some(s) = info.payload().downcast_ref::<&str>() {
                    (*s).to_string()
                } else if let Some(s) = info.payload().downcast_ref::<String>() {
                    s.clone()
                } else {
                    "<non-string panic>".to_string()
                };
                LAST_PANIC.with(|p| *p.borrow_mut() = Some(format!("{msg} @ {loc}")));
            } else {
                prev(info);
            }
        }));
    });
}

/// A captured panic: message and source location.
#[derive(Debug, Clone)]
pub struct Panic(pub String);

impl Panic {
    /// `file:line` part with the /repo prefix stripped — stable key for known-finding signatures.
    pub fn site(&self) -> String {
        let loc = self.0.rsplit(" @ ").next().unwrap_or("");
        let loc = loc.strip_prefix("/repo/").unwrap_or(loc);
        loc.to_string()
    }
}

/// Run `f`, converting a panic into `Err(Panic)`; the default panic message is suppressed.
pub fn catch<R>(f: impl FnOnce() -> R) -> Result<R, Panic> {
    install_hook();
    let prev = CAPTURING.with(|c| std::mem::replace(&mut *c.borrow_mut(), true));
    let r = panic::catch_unwind(AssertUnwindSafe(f));
    CAPTURING.with(|c| *c.borrow_mut() = prev);
    r.map_err(|_| {
        Panic(
            LAST_PANIC
                .with(|p| p.borrow_mut().take())
                .unwrap_or_else(|| "<panic>".into()),
        )
    })
}

// ---------------------------------------------------------------------------------------------
// Arguments

#[derive(Clone, Debug)]
pub struct Args {
    pub prop: String,
    pub tier: String,
    pub seed: u64,
    pub out: Option<String>,
    pub replay: Option<String>,
    pub engine: String,
    pub shard: u64,
    pub shards: u64,
    pub threads: usize,
    /// free-form key=value parameters
    pub params: BTreeMap<String, String>,
}

impl Args {
    /// `<bin> <PROP> [--tier t] [--seed n] [--out f] [--replay f] [--engine e] [--shard i/n]
    /// [--threads n] [-P k=v]...`
    pub fn parse() -> Args {
        let mut it = std::env::args().skip(1);
        let prop = it.next().expect("usage: <bin> <PROP> [options]");
        let mut a = Args {
            prop,
            tier: "quick".into(),
            seed: 1,
            out: None,
            replay: None,
            engine: "native".into(),
            shard: 0,
            shards: 1,
            threads: std::thread::available_parallelism()
                .map(|n| n.get())
                .unwrap_or(4),
            params: BTreeMap::new(),
        };
        while let Some(k) = it.next() {
            let mut v = || it.next().unwrap_or_else(|| panic!("missing value for {k}"));
            match k.as_str() {
                "--tier" => a.tier = v(),
                "--seed" => a.seed = v().parse().expect("seed"),
                "--out" => a.out = Some(v()),
                "--replay" => a.replay = Some(v()),
                "--engine" => a.engine = v(),
                "--threads" => a.threads = v().parse().expect("threads"),
                "--shard" => {
                    let s = v();
                    let (i, n) = s.split_once('/').expect("shard i/n");
                    a.shard = i.parse().unwrap();
                    a.shards = n.parse().unwrap();
                }
                "-P" => {
                    let s = v();
                    let (k, val) = s.split_once('=').expect("-P k=v");
                    a.params.insert(k.to_string(), val.to_string());
                }
                other => panic!("unknown argument {other}"),
            }
        }
        if a.params.contains_key("warmup") {
            // build warm-up invocation (Miri shards): nothing to run
            std::process::exit(0);
        }
        a
    }

    pub fn thorough(&self) -> bool {
        self.tier == "thorough"
    }

    pub fn param_u64(&self, k: &str, default: u64) -> u64 {
        self.params
            .get(k)
            .map(|v| v.parse().expect("numeric param"))
            .unwrap_or(default)
    }

    /// does case index `i` belong to this process's shard?
    pub fn mine(&self, i: u64) -> bool {
        i % self.shards == self.shard
    }
}

// ---------------------------------------------------------------------------------------------
// Monitor bookkeeping

#[derive(Clone, Debug)]
pub struct Violation {
    /// stable identity of *what fails* (input class / call site / history shape); known findings
    /// are matched on this string exactly.
    pub signature: String,
    pub detail: String,
    pub replay: Value,
    pub count: u64,
}

const MAX_SAMPLES: usize = 6;
const MAX_SHAPES: usize = 2_000_000;

#[derive(Default)]
pub struct Mon {
    pub evaluations: u64,
    shapes: BTreeSet<u64>,
    shapes_overflow: u64,
    samples: Vec<Value>,
    pub violations: BTreeMap<String, Violation>,
    inconclusive: Vec<String>,
    counters: BTreeMap<String, u64>,
    floors: BTreeMap<String, u64>,
    notes: BTreeMap<String, Value>,
    /// observed known-finding signatures (set by `finding()`): they are violations by the
    /// oracle that the driver will match against known_findings.json.
    start: Option<Instant>,
}

pub fn hash_of<T: Hash>(t: &T) -> u64 {
    // FNV-1a based hasher for run-to-run stability (DefaultHasher is randomly keyed per process
    // only for HashMap; `DefaultHasher::new()` is fixed-key, but keep it explicit).
    struct Fnv(u64);
    impl Hasher for Fnv {
        fn finish(&self) -> u64 {
            self.0
        }
        fn write(&mut self, bytes: &[u8]) {
            for b in bytes {
                self.0 ^= *b as u64;
                self.0 = self.0.wrapping_mul(0x100000001b3);
            }
        }
    }
    let mut h = Fnv(0xcbf29ce484222325);
    t.hash(&mut h);
    h.finish()
}

impl Mon {
    pub fn new() -> Mon {
        install_hook();
        Mon {
            start: Some(Instant::now()),
            ..Default::default()
        }
    }

    /// one more execution observed by an oracle
    pub fn eval(&mut self) {
        self.evaluations += 1;
    }

    pub fn evals(&mut self, n: u64) {
        self.evaluations += n;
    }

    /// record the *shape* of a non-trivial case; distinct shapes are counted
    pub fn shape<T: Hash>(&mut self, t: &T) {
        if self.shapes.len() < MAX_SHAPES {
            self.shapes.insert(hash_of(t));
        } else {
            self.shapes_overflow += 1;
        }
    }

    pub fn distinct(&self) -> u64 {
        self.shapes.len() as u64
    }

    pub fn sample(&mut self, v: impl FnOnce() -> Value) {
        if self.samples.len() < MAX_SAMPLES {
            self.samples.push(v());
        }
    }

    /// keep a sample under a label, at most one per label (so that samples are diverse)
    pub fn sample_labeled(&mut self, label: &str, v: impl FnOnce() -> Value) {
        let key = format!("sampled:{label}");
        if !self.notes.contains_key(&key) && self.samples.len() < 24 {
            self.notes.insert(key, Value::Bool(true));
            let mut val = v();
            if let Value::Object(m) = &mut val {
                m.insert("label".into(), Value::String(label.into()));
            }
            self.samples.push(val);
        }
    }

    pub fn count(&mut self, key: &str) {
        *self.counters.entry(key.to_string()).or_default() += 1;
    }

    pub fn count_n(&mut self, key: &str, n: u64) {
        *self.counters.entry(key.to_string()).or_default() += n;
    }

    pub fn counter(&self, key: &str) -> u64 {
        self.counters.get(key).copied().unwrap_or(0)
    }

    /// at `finish`, counter `key` must be ≥ `min`, else the run is inconclusive (vacuity guard)
    pub fn floor(&mut self, key: &str, min: u64) {
        self.floors.insert(key.to_string(), min);
        self.counters.entry(key.to_string()).or_default();
    }

    pub fn note(&mut self, key: &str, v: Value) {
        self.notes.insert(key.to_string(), v);
    }

    pub fn violation(&mut self, signature: impl Into<String>, detail: impl Into<String>, replay: Value) {
        let signature = signature.into();
        match self.violations.get_mut(&signature) {
            Some(v) => v.count += 1,
            None => {
                self.violations.insert(
                    signature.clone(),
                    Violation {
                        signature,
                        detail: detail.into(),
                        replay,
                        count: 1,
                    },
                );
            }
        }
    }

    pub fn inconclusive(&mut self, reason: impl Into<String>) {
        let r = reason.into();
        if !self.inconclusive.contains(&r) && self.inconclusive.len() < 50 {
            self.inconclusive.push(r);
        }
    }

    pub fn merge(&mut self, o: Mon) {
        self.evaluations += o.evaluations;
        for s in o.shapes {
            if self.shapes.len() < MAX_SHAPES {
                self.shapes.insert(s);
            }
        }
        self.shapes_overflow += o.shapes_overflow;
        for s in o.samples {
            let label = s.get("label").and_then(|l| l.as_str()).map(|s| s.to_string());
            match label {
                Some(l) => {
                    let key = format!("sampled:{l}");
                    if !self.notes.contains_key(&key) && self.samples.len() < 24 {
                        self.notes.insert(key, Value::Bool(true));
                        self.samples.push(s);
                    }
                }
                None => {
                    if self.samples.len() < MAX_SAMPLES {
                        self.samples.push(s);
                    }
                }
            }
        }
        for (k, v) in o.violations {
            match self.violations.get_mut(&k) {
                Some(mine) => mine.count += v.count,
                None => {
                    self.violations.insert(k, v);
                }
            }
        }
        for r in o.inconclusive {
            self.inconclusive(r);
        }
        for (k, v) in o.counters {
            *self.counters.entry(k).or_default() += v;
        }
        for (k, v) in o.floors {
            self.floors.insert(k, v);
        }
        for (k, v) in o.notes {
            self.notes.entry(k).or_insert(v);
        }
    }

    /// Write the per-engine report and return the process exit code (0 held, 1 violation,
    /// 2 inconclusive). The driver re-derives the final verdict from the report.
    pub fn finish(mut self, args: &Args, rule: &str, assumptions: &[&str]) -> i32 {
        let floors: Vec<(String, u64)> = self.floors.iter().map(|(k, v)| (k.clone(), *v)).collect();
        // floors only apply to unsharded or whole runs; for sharded runs the driver sums counters
        for (k, min) in &floors {
            let have = self.counter(k);
            if have < *min && args.shards == 1 {
                self.inconclusive(format!("floor not reached: {k} = {have} < {min}"));
            }
        }
        let wall = self.start.map(|s| s.elapsed().as_secs_f64()).unwrap_or(0.0);
        let notes: BTreeMap<String, Value> = self
            .notes
            .iter()
            .filter(|(k, _)| !k.starts_with("sampled:"))
            .map(|(k, v)| (k.clone(), v.clone()))
            .collect();
        let report = json!({
            "property_id": args.prop,
            "engine": args.engine,
            "tier": args.tier,
            "seed": args.seed,
            "shard": format!("{}/{}", args.shard, args.shards),
            "evaluations": self.evaluations,
            "distinct_nontrivial": self.shapes.len(),
            "shape_hashes": if self.shapes.len() <= 200_000 { json!(self.shapes.iter().collect::<Vec<_>>()) } else { Value::Null },
            "rule": rule,
            "samples": self.samples,
            "counters": self.counters,
            "floors": self.floors,
            "notes": notes,
            "violations": self.violations.values().map(|v| json!({
                "signature": v.signature, "detail": v.detail, "replay": v.replay, "count": v.count,
            })).collect::<Vec<_>>(),
            "inconclusive": self.inconclusive,
            "assumptions": assumptions,
            "wall_s": wall,
        });
        let text = serde_json::to_string(&report).expect("report json");
        match &args.out {
            Some(p) => std::fs::write(p, text).expect("write report"),
            None => println!("{}", serde_json::to_string_pretty(&report).unwrap()),
        }
        eprintln!(
            "[{} {} shard {}/{}] evals={} distinct={} violations={} inconclusive={} wall={:.1}s",
            args.prop,
            args.engine,
            args.shard,
            args.shards,
            self.evaluations,
            self.shapes.len(),
            self.violations.len(),
            self.inconclusive.len(),
            wall
        );
        for v in self.violations.values() {
            eprintln!("  violation[{}] x{}: {}", v.signature, v.count, v.detail);
        }
        for r in &self.inconclusive {
            eprintln!("  inconclusive: {r}");
        }
        if !self.violations.is_empty() {
            1
        } else if !self.inconclusive.is_empty() {
            2
        } else {
            0
        }
    }
}

/// Run `n` work items on `threads` threads; each thread gets its own `Mon`, merged at the end.
/// Item order inside a thread is deterministic; results do not depend on thread count because
/// each item derives its own PRNG from (seed, index).
pub fn par_run<F>(mon: &mut Mon, threads: usize, n: u64, f: F)
where
    F: Fn(u64, &mut Mon) + Sync,
{
    let threads = threads.max(1);
    if threads == 1 || cfg!(miri) {
        for i in 0..n {
            f(i, mon);
        }
        return;
    }
    let next = std::sync::atomic::AtomicU64::new(0);
    let chunk = (n / (threads as u64 * 16)).clamp(1, 4096);
    let mons: Vec<Mon> = std::thread::scope(|s| {
        let hs: Vec<_> = (0..threads)
            .map(|_| {
                s.spawn(|| {
                    let mut m = Mon::new();
                    m.start = None;
                    loop {
                        let lo = next.fetch_add(chunk, std::sync::atomic::Ordering::Relaxed);
                        if lo >= n {
                            break;
                        }
                        for i in lo..(lo + chunk).min(n) {
                            f(i, &mut m);
                        }
                    }
                    m
                })
            })
            .collect();
        hs.into_iter().map(|h| h.join().expect("worker")).collect()
    });
    for m in mons {
        mon.merge(m);
    }
}

pub fn hex(b: &[u8]) -> String {
    let mut s = String::with_capacity(b.len() * 2);
    for x in b {
        s.push_str(&format!("{x:02x}"));
    }
    s
}

pub fn unhex(s: &str) -> Vec<u8> {
    (0..s.len() / 2)
        .map(|i| u8::from_str_radix(&s[2 * i..2 * i + 2], 16).expect("hex"))
        .collect()
}
