//! Counting global allocator: live bytes / live blocks, for "never grows memory" plateaus.
//! A binary opts in with `#[global_allocator] static A: vmon::alloc::Counting = vmon::alloc::Counting;`
//! It remembers no addresses, so it hides nothing from leak detectors.

use std::{
    alloc::{GlobalAlloc, Layout, System},
    sync::atomic::{AtomicI64, AtomicU64, Ordering},
};

pub struct Counting;

static LIVE_BYTES: AtomicI64 = AtomicI64::new(0);
static LIVE_BLOCKS: AtomicI64 = AtomicI64::new(0);
static TOTAL_ALLOCS: AtomicU64 = AtomicU64::new(0);

unsafe impl GlobalAlloc for Counting {
    unsafe fn alloc(&self, l: Layout) -> *mut u8 {
        let p = unsafe { System.alloc(l) };
        if !p.is_null() {
            LIVE_BYTES.fetch_add(l.size() as i64, Ordering::Relaxed);
            LIVE_BLOCKS.fetch_add(1, Ordering::Relaxed);
            TOTAL_ALLOCS.fetch_add(1, Ordering::Relaxed);
        }
        p
    }

    unsafe fn dealloc(&self, p: *mut u8, l: Layout) {
        unsafe { System.dealloc(p, l) };
        LIVE_BYTES.fetch_sub(l.size() as i64, Ordering::Relaxed);
        LIVE_BLOCKS.fetch_sub(1, Ordering::Relaxed);
    }

    unsafe fn realloc(&self, p: *mut u8, l: Layout, new: usize) -> *mut u8 {
        let q = unsafe { System.realloc(p, l, new) };
        if !q.is_null() {
            LIVE_BYTES.fetch_add(new as i64 - l.size() as i64, Ordering::Relaxed);
            TOTAL_ALLOCS.fetch_add(1, Ordering::Relaxed);
        }
        q
    }
}

pub fn live_bytes() -> i64 {
    LIVE_BYTES.load(Ordering::Relaxed)
}

pub fn live_blocks() -> i64 {
    LIVE_BLOCKS.load(Ordering::Relaxed)
}

pub fn total_allocs() -> u64 {
    TOTAL_ALLOCS.load(Ordering::Relaxed)
}
