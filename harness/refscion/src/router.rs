//! Reference border-router processing of a standard SCION path at one AS, following the data-plane
//! specification (and, where the text is silent, the open-source reference router's published
//! behaviour): hop expiry, ingress-interface check, SegID update rules per direction including
//! the peering exceptions, MAC verification with the AS's own key, effective cross-over with
//! re-verification of the new hop field, link-type tables for in-segment and segment-change
//! forwarding, egress existence / link state, and local delivery only in the destination AS.
//!
//! All rules are evaluated without short-circuit; the result carries the *set* of violated
//! rules, so that differences in check order between two correct routers cannot look like a
//! disagreement.

use std::collections::BTreeSet;

use crate::{
    mac::{beta_next, hop_mac},
    topo::{Neighbour, RTopo},
    wire::RStdPath,
};

#[derive(Debug, Clone, Copy, PartialEq, Eq, Hash, PartialOrd, Ord)]
pub enum Rule {
    /// pointers / segment lengths do not describe a position on a well-formed path
    Malformed,
    /// peering flag on a path that is not a two-segment path
    PeeringShape,
    /// the interface the packet came in on is not the one the hop field names
    IngressInterface,
    HopExpired,
    HopMac,
    /// the hop field after an effective cross-over
    XoverHopExpired,
    XoverHopMac,
    /// ingress/egress link types not allowed inside one segment
    LinkTypesInSegment,
    /// ingress/egress link types not allowed at a segment change (valley, core loop, …)
    LinkTypesSegmentChange,
    /// a segment change on a packet that came from inside the AS
    XoverFromInside,
    EgressUnknown,
    EgressDown,
    /// hop field says "deliver here" but the packet is addressed elsewhere, or the path ends here
    /// while the destination is another AS
    NonLocalDelivery,
    /// addressed to this AS but the path continues
    DestinationNotAtEnd,
    /// segment of length one
    SingleHopSegment,
}

#[derive(Debug, Clone, PartialEq, Eq)]
pub enum Outcome {
    Deliver,
    /// leave via `egress` to AS `next_as`, arriving there on `next_if`
    Forward { egress: u16, next_as: usize, next_if: u16 },
    Reject(BTreeSet<Rule>),
}

fn expiry(ts: u32, exp: u8) -> u64 {
    ts as u64 + ((exp as u64 + 1) * 3375) / 10
}

/// Process `path` (mutated like a router would: SegID updates, pointer increments) at AS `asx`,
/// where the packet entered through `in_if` (0 = from a host inside the AS).
pub fn process(topo: &RTopo, asx: usize, in_if: u16, path: &mut RStdPath, dst_ia: u64, now: u32) -> Outcome {
    let mut bad: BTreeSet<Rule> = BTreeSet::new();
    let me = &topo.ases[asx];
    let [s0, s1, s2] = path.seg_len;
    let nh = RStdPath::n_hops(path.seg_len);
    let prefix_ok = s0 > 0 && !(s1 == 0 && s2 > 0);
    if !prefix_ok || nh > 64 || path.curr_hf as usize >= nh || path.segment_of(path.curr_hf as usize) != Some(path.curr_inf as usize) || path.infos.len() != path.n_segments() {
        bad.insert(Rule::Malformed);
        return Outcome::Reject(bad);
    }
    let ch = path.curr_hf as usize;
    let ci = path.curr_inf as usize;
    if path.seg_len[ci] < 2 {
        // a segment with a single hop field cannot be traversed (it has no link)
        let peering_pair = path.infos[ci].peer();
        if !peering_pair {
            bad.insert(Rule::SingleHopSegment);
        }
    }
    // peering
    let any_peer = path.infos.iter().any(|i| i.peer());
    let mut peering_hop = false;
    if path.infos[ci].peer() {
        if path.n_segments() != 2 || !path.infos.iter().all(|i| i.peer()) {
            bad.insert(Rule::PeeringShape);
        } else {
            peering_hop = ch == s0 as usize - 1 || ch == s0 as usize;
        }
    } else if any_peer {
        bad.insert(Rule::PeeringShape);
    }

    let cons = path.infos[ci].cons_dir();
    let hf = path.hops[ch].clone();
    let (hf_in, hf_eg) = if cons { (hf.cons_in, hf.cons_eg) } else { (hf.cons_eg, hf.cons_in) };

    // ingress interface
    if in_if != 0 && hf_in != in_if {
        bad.insert(Rule::IngressInterface);
    }
    // expiry
    if (now as u64) > expiry(path.infos[ci].timestamp, hf.exp) {
        bad.insert(Rule::HopExpired);
    }
    // SegID update against construction direction at the ingress router
    if !cons && in_if != 0 && !peering_hop {
        path.infos[ci].seg_id = beta_next(path.infos[ci].seg_id, &hf.mac);
    }
    // MAC
    let want = hop_mac(&me.key, path.infos[ci].seg_id, path.infos[ci].timestamp, hf.exp, hf.cons_in, hf.cons_eg);
    if want != hf.mac {
        bad.insert(Rule::HopMac);
    }

    let last_hf_of_path = ch + 1 == nh;
    let seg_end = path.seg_range(ci).end == ch + 1;
    let addressed_here = dst_ia == me.ia();

    let ingress_nb = if in_if == 0 { None } else { topo.iface(asx, in_if).map(|x| x.3) };
    if in_if != 0 && ingress_nb.is_none() {
        bad.insert(Rule::IngressInterface);
    }

    // delivery
    if last_hf_of_path {
        // (the last hop field of an on-path / shortcut destination legitimately names a further
        // interface; what matters is that the packet is addressed to this AS)
        let _ = hf_eg;
        if !addressed_here {
            bad.insert(Rule::NonLocalDelivery);
        }
        return if bad.is_empty() { Outcome::Deliver } else { Outcome::Reject(bad) };
    }
    // (A packet addressed to this AS whose path continues is refused by the open-source reference
    // router as a sanity check; the data-plane rules proper do not require it, so it is not part
    // of this reference: `Rule::DestinationNotAtEnd` is never raised.)
    let _ = addressed_here;

    // effective cross-over: segment change that is not a peering hop
    let mut eff_xover = false;
    let mut cur_ci = ci;
    let mut cur_ch = ch;
    if seg_end && !peering_hop {
        eff_xover = true;
        if in_if == 0 {
            bad.insert(Rule::XoverFromInside);
        }
        cur_ch = ch + 1;
        cur_ci = ci + 1;
        let nhf = path.hops[cur_ch].clone();
        if (now as u64) > expiry(path.infos[cur_ci].timestamp, nhf.exp) {
            bad.insert(Rule::XoverHopExpired);
        }
        let want = hop_mac(&me.key, path.infos[cur_ci].seg_id, path.infos[cur_ci].timestamp, nhf.exp, nhf.cons_in, nhf.cons_eg);
        if want != nhf.mac {
            bad.insert(Rule::XoverHopMac);
        }
        if path.seg_len[cur_ci] < 2 {
            bad.insert(Rule::SingleHopSegment);
        }
    }
    let cons2 = path.infos[cur_ci].cons_dir();
    let ehf = path.hops[cur_ch].clone();
    let egress = if cons2 { ehf.cons_eg } else { ehf.cons_in };
    let eg = topo.iface(asx, egress);
    match eg {
        None => {
            bad.insert(Rule::EgressUnknown);
        }
        Some((li, _, _, eg_nb)) => {
            if !topo.links[li].up {
                bad.insert(Rule::EgressDown);
            }
            if let Some(inb) = ingress_nb {
                use Neighbour::*;
                if eff_xover {
                    let ok = matches!((inb, eg_nb), (Core, Child) | (Child, Core) | (Child, Child));
                    if !ok {
                        bad.insert(Rule::LinkTypesSegmentChange);
                    }
                } else {
                    let ok = matches!((inb, eg_nb), (Core, Core) | (Child, Parent) | (Parent, Child) | (Child, Peer) | (Peer, Child));
                    if !ok {
                        bad.insert(Rule::LinkTypesInSegment);
                    }
                }
            }
        }
    }
    if !bad.is_empty() {
        return Outcome::Reject(bad);
    }
    // commit: pointer moves, egress SegID update in construction direction
    let peering_now = if path.infos[cur_ci].peer() { cur_ch == s0 as usize - 1 || cur_ch == s0 as usize } else { false };
    if cons2 && !peering_now {
        path.infos[cur_ci].seg_id = beta_next(path.infos[cur_ci].seg_id, &ehf.mac);
    }
    let next_ch = cur_ch + 1;
    path.curr_hf = next_ch as u8;
    path.curr_inf = path.segment_of(next_ch).unwrap() as u8;
    let (_, next_as, next_if, _) = eg.unwrap();
    Outcome::Forward { egress, next_as, next_if }
}

#[derive(Debug, Clone, PartialEq, Eq)]
pub enum WalkEnd {
    Delivered { at: usize, trail: Vec<(usize, u16, u16)> },
    Rejected { at: usize, rules: BTreeSet<Rule>, trail: Vec<(usize, u16, u16)> },
    TooLong,
}

/// Walk a packet from inside `src_as` until delivery or rejection; `trail` records
/// (AS, ingress interface, egress interface) per visited AS.
pub fn walk(topo: &RTopo, src_as: usize, path: &mut RStdPath, dst_ia: u64, now: u32) -> WalkEnd {
    walk_from(topo, src_as, 0, path, dst_ia, now)
}

pub fn walk_from(topo: &RTopo, start_as: usize, start_if: u16, path: &mut RStdPath, dst_ia: u64, now: u32) -> WalkEnd {
    let mut at = start_as;
    let mut in_if = start_if;
    let mut trail = vec![];
    for _ in 0..70 {
        match process(topo, at, in_if, path, dst_ia, now) {
            Outcome::Deliver => {
                trail.push((at, in_if, 0));
                return WalkEnd::Delivered { at, trail };
            }
            Outcome::Reject(rules) => return WalkEnd::Rejected { at, rules, trail },
            Outcome::Forward { egress, next_as, next_if } => {
                trail.push((at, in_if, egress));
                at = next_as;
                in_if = next_if;
            }
        }
    }
    WalkEnd::TooLong
}
