//! Reference topology model, generator and beaconing (segment construction with authentic MACs),
//! written from the SCION control-plane / data-plane specifications:
//!  * an AS entry's hop field authenticates (ConsIngress, ConsEgress, ExpTime) under the AS key,
//!    chained through beta_0 = SegID, beta_{i+1} = beta_i XOR MAC_i[0:2];
//!  * a peer entry's hop field has ConsIngress = the peering interface, ConsEgress = the AS
//!    entry's egress, and is chained to beta_{i+1} (it "hangs off" the AS's own hop field).

use crate::mac::{Key, beta_next, hop_mac};

#[derive(Debug, Clone, Copy, PartialEq, Eq, Hash)]
pub enum LinkKind {
    Core,
    /// `a` is the parent of `b`
    ParentChild,
    Peer,
}

#[derive(Debug, Clone)]
pub struct RAs {
    pub isd: u16,
    pub asn: u64,
    pub core: bool,
    pub key: Key,
    pub mtu: u32,
}
impl RAs {
    pub fn ia(&self) -> u64 {
        ((self.isd as u64) << 48) | self.asn
    }
}

#[derive(Debug, Clone)]
pub struct RLink {
    pub a: usize,
    pub a_if: u16,
    pub b: usize,
    pub b_if: u16,
    pub kind: LinkKind,
    pub up: bool,
    pub mtu: u16,
}

/// how an AS sees the neighbour on one of its interfaces
#[derive(Debug, Clone, Copy, PartialEq, Eq, Hash)]
pub enum Neighbour {
    Core,
    Parent,
    Child,
    Peer,
}

#[derive(Debug, Clone, Default)]
pub struct RTopo {
    pub ases: Vec<RAs>,
    pub links: Vec<RLink>,
}

impl RTopo {
    pub fn as_index(&self, ia: u64) -> Option<usize> {
        self.ases.iter().position(|a| a.ia() == ia)
    }

    /// (link index, remote AS, remote interface, neighbour kind as seen from `asx`)
    pub fn iface(&self, asx: usize, ifid: u16) -> Option<(usize, usize, u16, Neighbour)> {
        for (li, l) in self.links.iter().enumerate() {
            if l.a == asx && l.a_if == ifid {
                let n = match l.kind {
                    LinkKind::Core => Neighbour::Core,
                    LinkKind::ParentChild => Neighbour::Child,
                    LinkKind::Peer => Neighbour::Peer,
                };
                return Some((li, l.b, l.b_if, n));
            }
            if l.b == asx && l.b_if == ifid {
                let n = match l.kind {
                    LinkKind::Core => Neighbour::Core,
                    LinkKind::ParentChild => Neighbour::Parent,
                    LinkKind::Peer => Neighbour::Peer,
                };
                return Some((li, l.a, l.a_if, n));
            }
        }
        None
    }

    pub fn links_of(&self, asx: usize) -> Vec<(usize, u16, usize, u16, Neighbour)> {
        let mut v = vec![];
        for (li, l) in self.links.iter().enumerate() {
            if l.a == asx {
                v.push((li, l.a_if, l.b, l.b_if, self.iface(asx, l.a_if).unwrap().3));
            } else if l.b == asx {
                v.push((li, l.b_if, l.a, l.a_if, self.iface(asx, l.b_if).unwrap().3));
            }
        }
        v
    }
}

// ---------------------------------------------------------------------------------------------
// segments

#[derive(Debug, Clone, PartialEq, Eq)]
pub struct RPeer {
    pub peer_as: usize,
    /// interface on the remote (peer) AS
    pub peer_if: u16,
    /// local peering interface (= ConsIngress of the peer hop field)
    pub local_if: u16,
    pub peer_mtu: u16,
    pub exp: u8,
    pub cons_eg: u16,
    pub mac: [u8; 6],
}

#[derive(Debug, Clone, PartialEq, Eq)]
pub struct REntry {
    pub as_idx: usize,
    pub next_as: Option<usize>,
    pub cons_in: u16,
    pub cons_eg: u16,
    pub exp: u8,
    pub mac: [u8; 6],
    /// MTU of the link the beacon arrived on (0 for the first entry)
    pub ingress_mtu: u16,
    pub peers: Vec<RPeer>,
    /// beta used for this entry's own hop field
    pub beta: u16,
}

#[derive(Debug, Clone, PartialEq, Eq)]
pub struct RSegment {
    pub core: bool,
    pub timestamp: u32,
    pub seg_id: u16,
    pub entries: Vec<REntry>,
}

impl RSegment {
    pub fn first_as(&self) -> usize {
        self.entries[0].as_idx
    }
    pub fn last_as(&self) -> usize {
        self.entries.last().unwrap().as_idx
    }
    /// beta_i (value the SegID field must hold to verify entry i's own hop field)
    pub fn beta(&self, i: usize) -> u16 {
        if i < self.entries.len() {
            self.entries[i].beta
        } else {
            let l = self.entries.last().unwrap();
            beta_next(l.beta, &l.mac)
        }
    }
}

/// Parameters of one beacon: (timestamp, seg_id, per-entry ExpTime chooser)
pub struct BeaconParams<'a> {
    pub timestamp: u32,
    pub seg_id: u16,
    pub exp: &'a mut dyn FnMut() -> u8,
    pub with_peers: bool,
}

/// Build the segment along `hops` = [(as, link taken to the next AS)...] in construction order.
/// `route[i]` is the link index used from AS i to AS i+1 (len = n-1).
pub fn build_segment(topo: &RTopo, ases: &[usize], route: &[usize], core: bool, p: &mut BeaconParams) -> RSegment {
    let n = ases.len();
    let mut entries: Vec<REntry> = Vec::with_capacity(n);
    let mut beta = p.seg_id;
    for i in 0..n {
        let asx = ases[i];
        let (cons_in, ingress_mtu) = if i == 0 {
            (0, 0)
        } else {
            let l = &topo.links[route[i - 1]];
            (if l.a == asx { l.a_if } else { l.b_if }, l.mtu)
        };
        let cons_eg = if i == n - 1 {
            0
        } else {
            let l = &topo.links[route[i]];
            if l.a == asx { l.a_if } else { l.b_if }
        };
        let exp = (p.exp)();
        let key = &topo.ases[asx].key;
        let mac = hop_mac(key, beta, p.timestamp, exp, cons_in, cons_eg);
        let beta_peer = beta_next(beta, &mac);
        let mut peers = vec![];
        if p.with_peers && !core {
            for (li, local_if, rem, rem_if, nb) in topo.links_of(asx) {
                if nb != Neighbour::Peer {
                    continue;
                }
                let pexp = (p.exp)();
                let pmac = hop_mac(key, beta_peer, p.timestamp, pexp, local_if, cons_eg);
                peers.push(RPeer { peer_as: rem, peer_if: rem_if, local_if, peer_mtu: topo.links[li].mtu, exp: pexp, cons_eg, mac: pmac });
            }
        }
        entries.push(REntry { as_idx: asx, next_as: ases.get(i + 1).copied(), cons_in, cons_eg, exp, mac, ingress_mtu, peers, beta });
        beta = beta_peer;
    }
    RSegment { core, timestamp: p.timestamp, seg_id: p.seg_id, entries }
}

/// All loop-free walks from `start` following links accepted by `step`, up to `max_len` ASes.
/// Returns (ases, route) pairs, including proper prefixes of length ≥ 2.
fn walks(topo: &RTopo, start: usize, max_len: usize, step: &dyn Fn(Neighbour) -> bool) -> Vec<(Vec<usize>, Vec<usize>)> {
    let mut out = vec![];
    let mut stack: Vec<(Vec<usize>, Vec<usize>)> = vec![(vec![start], vec![])];
    while let Some((ases, route)) = stack.pop() {
        if ases.len() >= 2 {
            out.push((ases.clone(), route.clone()));
        }
        if ases.len() >= max_len {
            continue;
        }
        let cur = *ases.last().unwrap();
        for (li, _lif, rem, _rif, nb) in topo.links_of(cur) {
            if !step(nb) || ases.contains(&rem) {
                continue;
            }
            let mut a2 = ases.clone();
            a2.push(rem);
            let mut r2 = route.clone();
            r2.push(li);
            stack.push((a2, r2));
        }
    }
    out.sort();
    out
}

pub struct Beaconing {
    pub core_segments: Vec<RSegment>,
    /// from a core AS down to a non-core AS (serve as up segments of their last AS and as down
    /// segments towards it)
    pub noncore_segments: Vec<RSegment>,
}

/// Full beaconing of a topology: every loop-free core walk between two core ASes is a core
/// segment, every loop-free parent→child walk from a core AS is a non-core segment.
pub fn beacon_all(topo: &RTopo, max_len: usize, params: &mut dyn FnMut() -> (u32, u16), exp: &mut dyn FnMut() -> u8, with_peers: bool) -> Beaconing {
    let mut core_segments = vec![];
    let mut noncore_segments = vec![];
    for (ci, c) in topo.ases.iter().enumerate() {
        if !c.core {
            continue;
        }
        for (ases, route) in walks(topo, ci, max_len, &|nb| nb == Neighbour::Core) {
            let (timestamp, seg_id) = params();
            let mut p = BeaconParams { timestamp, seg_id, exp, with_peers };
            core_segments.push(build_segment(topo, &ases, &route, true, &mut p));
        }
        for (ases, route) in walks(topo, ci, max_len, &|nb| nb == Neighbour::Child) {
            let (timestamp, seg_id) = params();
            let mut p = BeaconParams { timestamp, seg_id, exp, with_peers };
            noncore_segments.push(build_segment(topo, &ases, &route, false, &mut p));
        }
    }
    Beaconing { core_segments, noncore_segments }
}

// ---------------------------------------------------------------------------------------------
// generator

pub struct TopoRng<'a>(pub &'a mut dyn FnMut(u64) -> u64);
impl TopoRng<'_> {
    fn below(&mut self, n: u64) -> u64 {
        (self.0)(n)
    }
    fn chance(&mut self, num: u64, den: u64) -> bool {
        self.below(den) < num
    }
}

#[derive(Debug, Clone, Copy)]
pub struct GenParams {
    pub isds: usize,
    pub cores_per_isd: usize,
    pub noncore_per_isd: usize,
    pub extra_parent_pct: u64,
    pub parallel_link_pct: u64,
    pub peer_links: usize,
    pub extra_core_links_pct: u64,
    /// 0: small consecutive ids, 1: ids including 1 and 65535 and large gaps
    pub if_numbering: u8,
}

/// Random valid topology: per ISD a set of core ASes (connected), a parent/child DAG below them
/// (every non-core AS has ≥1 parent among earlier ASes of its ISD), optional parallel links,
/// peering links between non-core ASes (possibly across ISDs), inter-ISD core links.
pub fn generate(r: &mut TopoRng, p: &GenParams) -> RTopo {
    let mut t = RTopo::default();
    let mut next_if: Vec<u16> = vec![];
    let mut used_if: Vec<Vec<u16>> = vec![];
    let mut isd_members: Vec<(Vec<usize>, Vec<usize>)> = vec![];
    for isd in 1..=p.isds as u16 {
        let mut cores = vec![];
        let mut non = vec![];
        for k in 0..p.cores_per_isd {
            cores.push(t.ases.len());
            t.ases.push(mk_as(r, isd, 0x100 + k as u64, true));
        }
        for k in 0..p.noncore_per_isd {
            non.push(t.ases.len());
            t.ases.push(mk_as(r, isd, 0x200 + k as u64, false));
        }
        isd_members.push((cores, non));
    }
    next_if.resize(t.ases.len(), 1);
    used_if.resize(t.ases.len(), vec![]);
    let alloc = |asx: usize, r: &mut TopoRng, next_if: &mut Vec<u16>, used: &mut Vec<Vec<u16>>| -> u16 {
        loop {
            let id = if p.if_numbering == 0 {
                let v = next_if[asx];
                next_if[asx] += 1;
                v
            } else {
                match r.below(6) {
                    0 => 1,
                    1 => 65535,
                    2 => 65534,
                    _ => 1 + r.below(65535) as u16,
                }
            };
            if id != 0 && !used[asx].contains(&id) {
                used[asx].push(id);
                return id;
            }
        }
    };
    let add = |t: &mut RTopo, a: usize, b: usize, kind: LinkKind, r: &mut TopoRng, next_if: &mut Vec<u16>, used: &mut Vec<Vec<u16>>| {
        let a_if = alloc(a, r, next_if, used);
        let b_if = alloc(b, r, next_if, used);
        let mtu = [1280u16, 1400, 1472, 9000, 1500][r.below(5) as usize];
        t.links.push(RLink { a, a_if, b, b_if, kind, up: true, mtu });
    };
    // core mesh inside each ISD: chain + extras
    for (cores, _) in &isd_members {
        for w in cores.windows(2) {
            add(&mut t, w[0], w[1], LinkKind::Core, r, &mut next_if, &mut used_if);
        }
        for i in 0..cores.len() {
            for j in i + 2..cores.len() {
                if r.chance(p.extra_core_links_pct, 100) {
                    add(&mut t, cores[i], cores[j], LinkKind::Core, r, &mut next_if, &mut used_if);
                }
            }
        }
    }
    // inter-ISD core links: chain of ISDs + extras
    for w in 0..isd_members.len().saturating_sub(1) {
        let a = isd_members[w].0[r.below(isd_members[w].0.len() as u64) as usize];
        let b = isd_members[w + 1].0[r.below(isd_members[w + 1].0.len() as u64) as usize];
        add(&mut t, a, b, LinkKind::Core, r, &mut next_if, &mut used_if);
        if r.chance(p.extra_core_links_pct, 100) {
            let a = isd_members[w].0[r.below(isd_members[w].0.len() as u64) as usize];
            let b = isd_members[w + 1].0[r.below(isd_members[w + 1].0.len() as u64) as usize];
            add(&mut t, a, b, LinkKind::Core, r, &mut next_if, &mut used_if);
        }
    }
    // parent/child DAG
    for (cores, non) in &isd_members {
        for (k, &n) in non.iter().enumerate() {
            let mut candidates: Vec<usize> = cores.clone();
            candidates.extend_from_slice(&non[..k]);
            let first = candidates[r.below(candidates.len() as u64) as usize];
            add(&mut t, first, n, LinkKind::ParentChild, r, &mut next_if, &mut used_if);
            if r.chance(p.parallel_link_pct, 100) {
                add(&mut t, first, n, LinkKind::ParentChild, r, &mut next_if, &mut used_if);
            }
            for &c in &candidates {
                if c != first && r.chance(p.extra_parent_pct, 100) {
                    add(&mut t, c, n, LinkKind::ParentChild, r, &mut next_if, &mut used_if);
                }
            }
        }
    }
    // peering links between non-core ASes that are not in a parent/child relation
    let all_non: Vec<usize> = isd_members.iter().flat_map(|m| m.1.iter().copied()).collect();
    let mut tries = 0;
    let mut added = 0;
    while added < p.peer_links && tries < 50 && all_non.len() >= 2 {
        tries += 1;
        let a = all_non[r.below(all_non.len() as u64) as usize];
        let b = all_non[r.below(all_non.len() as u64) as usize];
        if a == b || t.links.iter().any(|l| (l.a == a && l.b == b) || (l.a == b && l.b == a)) {
            continue;
        }
        add(&mut t, a, b, LinkKind::Peer, r, &mut next_if, &mut used_if);
        added += 1;
    }
    t
}

fn mk_as(r: &mut TopoRng, isd: u16, asn_low: u64, core: bool) -> RAs {
    let mut key = [0u8; 16];
    for k in key.iter_mut() {
        *k = r.below(256) as u8;
    }
    RAs { isd, asn: 0xff00_0000_0000 | asn_low, core, key, mtu: [1280u32, 1400, 1472, 2000, 9000][r.below(5) as usize] }
}
