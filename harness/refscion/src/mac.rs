//! Hop-field MAC and SegID chaining, from the SCION data-plane specification
//! (draft-dekater-scion-dataplane, "Hop Field MAC Computation").
//!
//! MAC input block (16 bytes, big endian):
//!   0..2 zero | 2..4 beta (SegID accumulator) | 4..8 timestamp | 8 zero | 9 ExpTime |
//!   10..12 ConsIngress | 12..14 ConsEgress | 14..16 zero
//! sigma = AES-CMAC(K, input); HF.MAC = sigma[0..6]; beta_{i+1} = beta_i XOR sigma[0..2].
//! The AES-CMAC primitive (RustCrypto) is trusted.

use cmac::{Cmac, Mac};

pub type Key = [u8; 16];

pub fn hop_mac(key: &Key, beta: u16, timestamp: u32, exp: u8, cons_in: u16, cons_eg: u16) -> [u8; 6] {
    let mut b = [0u8; 16];
    b[2] = (beta >> 8) as u8;
    b[3] = beta as u8;
    b[4] = (timestamp >> 24) as u8;
    b[5] = (timestamp >> 16) as u8;
    b[6] = (timestamp >> 8) as u8;
    b[7] = timestamp as u8;
    b[9] = exp;
    b[10] = (cons_in >> 8) as u8;
    b[11] = cons_in as u8;
    b[12] = (cons_eg >> 8) as u8;
    b[13] = cons_eg as u8;
    let mut m = <Cmac<aes::Aes128> as Mac>::new_from_slice(key).expect("16-byte key");
    m.update(&b);
    let full = m.finalize().into_bytes();
    let mut out = [0u8; 6];
    out.copy_from_slice(&full[..6]);
    out
}

pub fn beta_next(beta: u16, mac: &[u8; 6]) -> u16 {
    beta ^ (((mac[0] as u16) << 8) | mac[1] as u16)
}
