//! Byte-level reference codec for the SCION header format (common header, address header,
//! standard / one-hop / empty / opaque paths), SCION/UDP and SCMP, plus the ones-complement
//! checksum over the SCION pseudo header. Written from the header specification with plain,
//! checked index arithmetic; shares nothing with sciparse's layout tables.

#[derive(Debug, Clone, PartialEq, Eq)]
pub struct RInfo {
    pub flags: u8, // r r r r r r P C
    pub rsv: u8,
    pub seg_id: u16,
    pub timestamp: u32,
}
impl RInfo {
    pub fn cons_dir(&self) -> bool {
        self.flags & 1 != 0
    }
    pub fn peer(&self) -> bool {
        self.flags & 2 != 0
    }
}

#[derive(Debug, Clone, PartialEq, Eq)]
pub struct RHop {
    pub flags: u8, // r r r r r r I E
    pub exp: u8,
    pub cons_in: u16,
    pub cons_eg: u16,
    pub mac: [u8; 6],
}

#[derive(Debug, Clone, PartialEq, Eq)]
pub struct RStdPath {
    pub curr_inf: u8,
    pub curr_hf: u8,
    pub rsv: u8,
    pub seg_len: [u8; 3],
    pub infos: Vec<RInfo>,
    pub hops: Vec<RHop>,
}

pub const META_LEN: usize = 4;
pub const INFO_LEN: usize = 8;
pub const HOP_LEN: usize = 12;

fn be16(b: &[u8]) -> u16 {
    ((b[0] as u16) << 8) | b[1] as u16
}
fn be32(b: &[u8]) -> u32 {
    ((b[0] as u32) << 24) | ((b[1] as u32) << 16) | ((b[2] as u32) << 8) | b[3] as u32
}

pub fn decode_info(b: &[u8]) -> RInfo {
    RInfo { flags: b[0], rsv: b[1], seg_id: be16(&b[2..4]), timestamp: be32(&b[4..8]) }
}
pub fn encode_info(i: &RInfo, out: &mut Vec<u8>) {
    out.push(i.flags);
    out.push(i.rsv);
    out.extend_from_slice(&i.seg_id.to_be_bytes());
    out.extend_from_slice(&i.timestamp.to_be_bytes());
}
pub fn decode_hop(b: &[u8]) -> RHop {
    let mut mac = [0u8; 6];
    mac.copy_from_slice(&b[6..12]);
    RHop { flags: b[0], exp: b[1], cons_in: be16(&b[2..4]), cons_eg: be16(&b[4..6]), mac }
}
pub fn encode_hop(h: &RHop, out: &mut Vec<u8>) {
    out.push(h.flags);
    out.push(h.exp);
    out.extend_from_slice(&h.cons_in.to_be_bytes());
    out.extend_from_slice(&h.cons_eg.to_be_bytes());
    out.extend_from_slice(&h.mac);
}

impl RStdPath {
    /// Number of info fields the wire format carries for these segment lengths: one per
    /// non-zero SegLen.
    pub fn n_infos(seg_len: [u8; 3]) -> usize {
        seg_len.iter().filter(|l| **l > 0).count()
    }
    pub fn n_hops(seg_len: [u8; 3]) -> usize {
        seg_len.iter().map(|l| *l as usize).sum()
    }
    pub fn wire_len(seg_len: [u8; 3]) -> usize {
        META_LEN + INFO_LEN * Self::n_infos(seg_len) + HOP_LEN * Self::n_hops(seg_len)
    }

    /// Decode a standard path from the front of `b`; returns the path and the bytes consumed.
    pub fn decode(b: &[u8]) -> Option<(RStdPath, usize)> {
        if b.len() < META_LEN {
            return None;
        }
        let m = be32(&b[0..4]);
        let curr_inf = (m >> 30) as u8;
        let curr_hf = ((m >> 24) & 0x3f) as u8;
        let rsv = ((m >> 18) & 0x3f) as u8;
        let seg_len = [((m >> 12) & 0x3f) as u8, ((m >> 6) & 0x3f) as u8, (m & 0x3f) as u8];
        let total = Self::wire_len(seg_len);
        if b.len() < total {
            return None;
        }
        let ni = Self::n_infos(seg_len);
        let nh = Self::n_hops(seg_len);
        let mut infos = Vec::new();
        let mut hops = Vec::new();
        let mut off = META_LEN;
        for _ in 0..ni {
            infos.push(decode_info(&b[off..off + INFO_LEN]));
            off += INFO_LEN;
        }
        for _ in 0..nh {
            hops.push(decode_hop(&b[off..off + HOP_LEN]));
            off += HOP_LEN;
        }
        Some((RStdPath { curr_inf, curr_hf, rsv, seg_len, infos, hops }, total))
    }

    pub fn encode(&self) -> Vec<u8> {
        let m: u32 = ((self.curr_inf as u32 & 3) << 30)
            | ((self.curr_hf as u32 & 0x3f) << 24)
            | ((self.rsv as u32 & 0x3f) << 18)
            | ((self.seg_len[0] as u32 & 0x3f) << 12)
            | ((self.seg_len[1] as u32 & 0x3f) << 6)
            | (self.seg_len[2] as u32 & 0x3f);
        let mut out = Vec::with_capacity(Self::wire_len(self.seg_len));
        out.extend_from_slice(&m.to_be_bytes());
        for i in &self.infos {
            encode_info(i, &mut out);
        }
        for h in &self.hops {
            encode_hop(h, &mut out);
        }
        out
    }

    /// Well-formed in the sense of the data-plane spec: segment lengths are a non-empty prefix
    /// (Seg1Len>0 ⇒ Seg0Len>0, Seg2Len>0 ⇒ Seg1Len>0), at most 64 hop fields, CurrHF < total hops,
    /// CurrINF is the segment containing CurrHF.
    pub fn well_formed(&self) -> bool {
        let [a, b, c] = self.seg_len;
        if a == 0 || (b == 0 && c != 0) {
            return false;
        }
        let nh = Self::n_hops(self.seg_len);
        // CurrHF is a 6-bit field: a path whose hop fields cannot all be addressed by it is not a
        // usable SCION path (the reference router implementation caps paths at 64 hop fields)
        if nh > 64 || self.curr_hf as usize >= nh {
            return false;
        }
        self.segment_of(self.curr_hf as usize) == Some(self.curr_inf as usize)
    }

    /// index of the segment that hop `idx` belongs to
    pub fn segment_of(&self, idx: usize) -> Option<usize> {
        let mut acc = 0usize;
        for (s, l) in self.seg_len.iter().enumerate() {
            if idx < acc + *l as usize {
                return Some(s);
            }
            acc += *l as usize;
        }
        None
    }

    pub fn n_segments(&self) -> usize {
        Self::n_infos(self.seg_len)
    }

    /// Path reversal per the spec: reverse the order of the info fields and toggle their C flag,
    /// reverse the order of all hop fields, reverse the segment lengths, and mirror the pointers
    /// (CurrHF' = NumHF-1-CurrHF, CurrINF' = NumINF-1-CurrINF). Defined for well-formed paths only.
    pub fn reversed(&self) -> Option<RStdPath> {
        if !self.well_formed() {
            return None;
        }
        let ns = self.n_segments();
        let nh = Self::n_hops(self.seg_len);
        let mut seg_len = [0u8; 3];
        for i in 0..ns {
            seg_len[i] = self.seg_len[ns - 1 - i];
        }
        let mut infos: Vec<RInfo> = self.infos.iter().rev().cloned().collect();
        for i in infos.iter_mut() {
            i.flags ^= 1;
        }
        let hops: Vec<RHop> = self.hops.iter().rev().cloned().collect();
        Some(RStdPath {
            curr_inf: (ns - 1 - self.curr_inf as usize) as u8,
            curr_hf: (nh - 1 - self.curr_hf as usize) as u8,
            rsv: self.rsv,
            seg_len,
            infos,
            hops,
        })
    }

    /// hops of segment `s` as a slice range
    pub fn seg_range(&self, s: usize) -> std::ops::Range<usize> {
        let start: usize = self.seg_len[..s].iter().map(|l| *l as usize).sum();
        start..start + self.seg_len[s] as usize
    }

    /// Earliest expiry over all hop fields: Timestamp + floor((1+ExpTime) * 337.5 s), saturating
    /// at u32::MAX. None if a segment has no info field (malformed).
    pub fn expiry(&self) -> Option<u32> {
        let mut best: Option<u32> = None;
        let mut info_idx = 0usize;
        for s in 0..3 {
            if self.seg_len[s] == 0 {
                continue;
            }
            let info = self.infos.get(info_idx)?;
            info_idx += 1;
            for h in &self.hops[self.seg_range(s)] {
                let rel = ((h.exp as u64 + 1) * 3375) / 10;
                let e = (info.timestamp as u64 + rel).min(u32::MAX as u64) as u32;
                best = Some(best.map_or(e, |b| b.min(e)));
            }
        }
        best
    }
}

// ------------------------------------------------------------------------------------------------
// SCION packet

#[derive(Debug, Clone, PartialEq, Eq)]
pub enum RPath {
    Empty,
    Standard(RStdPath),
    OneHop { info: RInfo, hops: [RHop; 2] },
    /// any other path type: opaque bytes filling the rest of the header
    Opaque { path_type: u8, data: Vec<u8> },
}

#[derive(Debug, Clone, PartialEq, Eq)]
pub struct RPacket {
    pub version: u8,
    pub traffic_class: u8,
    pub flow_id: u32,
    pub next_hdr: u8,
    /// HdrLen field as on the wire (units of 4 bytes)
    pub hdr_len_units: u8,
    pub payload_len: u16,
    pub path_type: u8,
    pub dt: u8,
    pub dl: u8,
    pub st: u8,
    pub sl: u8,
    pub rsv: u16,
    pub dst_ia: u64,
    pub src_ia: u64,
    pub dst_host: Vec<u8>,
    pub src_host: Vec<u8>,
    pub path: RPath,
    pub payload: Vec<u8>,
    /// bytes after header+payload in the buffer
    pub trailing: usize,
}

#[derive(Debug, Clone, PartialEq, Eq)]
pub enum RErr {
    Short(&'static str),
    Version,
    HdrLenMismatch { advertised: usize, computed: usize },
}

pub const COMMON_LEN: usize = 12;

fn be64(b: &[u8]) -> u64 {
    let mut v = 0u64;
    for x in &b[..8] {
        v = (v << 8) | *x as u64;
    }
    v
}

impl RPacket {
    /// Structural decode. Accepts exactly the packets whose advertised header length equals the
    /// length computed from address lengths and path, and whose buffer holds header + payload.
    pub fn decode(b: &[u8]) -> Result<RPacket, RErr> {
        if b.len() < COMMON_LEN {
            return Err(RErr::Short("common"));
        }
        let w0 = be32(&b[0..4]);
        let version = (w0 >> 28) as u8;
        if version != 0 {
            return Err(RErr::Version);
        }
        let traffic_class = ((w0 >> 20) & 0xff) as u8;
        let flow_id = w0 & 0xfffff;
        let next_hdr = b[4];
        let hdr_len_units = b[5];
        let payload_len = be16(&b[6..8]);
        let path_type = b[8];
        let dt = b[9] >> 6;
        let dl = (b[9] >> 4) & 3;
        let st = (b[9] >> 2) & 3;
        let sl = b[9] & 3;
        let rsv = be16(&b[10..12]);
        let dlen = 4 * (dl as usize + 1);
        let slen = 4 * (sl as usize + 1);
        let addr_end = COMMON_LEN + 16 + dlen + slen;
        if b.len() < addr_end {
            return Err(RErr::Short("address"));
        }
        let dst_ia = be64(&b[12..20]);
        let src_ia = be64(&b[20..28]);
        let dst_host = b[28..28 + dlen].to_vec();
        let src_host = b[28 + dlen..addr_end].to_vec();
        let advertised = hdr_len_units as usize * 4;
        let (path, path_len) = match path_type {
            0 => (RPath::Empty, 0),
            1 => {
                let (p, n) = RStdPath::decode(&b[addr_end..]).ok_or(RErr::Short("path"))?;
                (RPath::Standard(p), n)
            }
            2 => {
                if b.len() < addr_end + 32 {
                    return Err(RErr::Short("onehop"));
                }
                let info = decode_info(&b[addr_end..addr_end + 8]);
                let h0 = decode_hop(&b[addr_end + 8..addr_end + 20]);
                let h1 = decode_hop(&b[addr_end + 20..addr_end + 32]);
                (RPath::OneHop { info, hops: [h0, h1] }, 32)
            }
            t => {
                if advertised < addr_end {
                    return Err(RErr::HdrLenMismatch { advertised, computed: addr_end });
                }
                if b.len() < advertised {
                    return Err(RErr::Short("opaque path"));
                }
                (RPath::Opaque { path_type: t, data: b[addr_end..advertised].to_vec() }, advertised - addr_end)
            }
        };
        let computed = addr_end + path_len;
        if computed != advertised {
            return Err(RErr::HdrLenMismatch { advertised, computed });
        }
        if b.len() < computed + payload_len as usize {
            return Err(RErr::Short("payload"));
        }
        let payload = b[computed..computed + payload_len as usize].to_vec();
        Ok(RPacket {
            version,
            traffic_class,
            flow_id,
            next_hdr,
            hdr_len_units,
            payload_len,
            path_type,
            dt,
            dl,
            st,
            sl,
            rsv,
            dst_ia,
            src_ia,
            dst_host,
            src_host,
            path,
            payload,
            trailing: b.len() - computed - payload_len as usize,
        })
    }

    pub fn header_len(&self) -> usize {
        COMMON_LEN
            + 16
            + self.dst_host.len()
            + self.src_host.len()
            + match &self.path {
                RPath::Empty => 0,
                RPath::Standard(p) => RStdPath::wire_len(p.seg_len),
                RPath::OneHop { .. } => 32,
                RPath::Opaque { data, .. } => data.len(),
            }
    }

    /// Encode with the length fields as stored in the struct (callers set them consistently via
    /// `fix_lengths`).
    pub fn encode(&self) -> Vec<u8> {
        let mut out = Vec::new();
        let w0: u32 = ((self.version as u32 & 0xf) << 28) | ((self.traffic_class as u32) << 20) | (self.flow_id & 0xfffff);
        out.extend_from_slice(&w0.to_be_bytes());
        out.push(self.next_hdr);
        out.push(self.hdr_len_units);
        out.extend_from_slice(&self.payload_len.to_be_bytes());
        out.push(self.path_type);
        out.push((self.dt << 6) | ((self.dl & 3) << 4) | ((self.st & 3) << 2) | (self.sl & 3));
        out.extend_from_slice(&self.rsv.to_be_bytes());
        out.extend_from_slice(&self.dst_ia.to_be_bytes());
        out.extend_from_slice(&self.src_ia.to_be_bytes());
        out.extend_from_slice(&self.dst_host);
        out.extend_from_slice(&self.src_host);
        match &self.path {
            RPath::Empty => {}
            RPath::Standard(p) => out.extend_from_slice(&p.encode()),
            RPath::OneHop { info, hops } => {
                encode_info(info, &mut out);
                encode_hop(&hops[0], &mut out);
                encode_hop(&hops[1], &mut out);
            }
            RPath::Opaque { data, .. } => out.extend_from_slice(data),
        }
        out.extend_from_slice(&self.payload);
        out
    }

    /// set HdrLen / PayloadLen / DL / SL from the contents; None if not representable
    pub fn fix_lengths(&mut self) -> Option<()> {
        let h = self.header_len();
        if h % 4 != 0 || h / 4 > 255 || self.payload.len() > 65535 {
            return None;
        }
        if self.dst_host.len() % 4 != 0 || !(4..=16).contains(&self.dst_host.len()) {
            return None;
        }
        if self.src_host.len() % 4 != 0 || !(4..=16).contains(&self.src_host.len()) {
            return None;
        }
        self.hdr_len_units = (h / 4) as u8;
        self.payload_len = self.payload.len() as u16;
        self.dl = (self.dst_host.len() / 4 - 1) as u8;
        self.sl = (self.src_host.len() / 4 - 1) as u8;
        Some(())
    }

    /// pseudo header + upper-layer bytes checksum (RFC 1071 over: DstIA, SrcIA, DstHost, SrcHost,
    /// upper-layer length (32 bit), 3 zero bytes, next header, then `upper`).
    pub fn l4_checksum_over(&self, upper: &[u8], protocol: u8) -> u16 {
        let mut data = Vec::new();
        data.extend_from_slice(&self.dst_ia.to_be_bytes());
        data.extend_from_slice(&self.src_ia.to_be_bytes());
        data.extend_from_slice(&self.dst_host);
        data.extend_from_slice(&self.src_host);
        data.extend_from_slice(&(upper.len() as u32).to_be_bytes());
        data.extend_from_slice(&[0, 0, 0, protocol]);
        data.extend_from_slice(upper);
        ones_complement(&data)
    }
}

/// RFC 1071 internet checksum of `data` (odd length padded with a zero byte), returned as the
/// value to be stored in the checksum field (i.e. complemented). Over data that already contains
/// a correct checksum the result is 0.
pub fn ones_complement(data: &[u8]) -> u16 {
    let mut sum: u64 = 0;
    let mut i = 0;
    while i + 1 < data.len() {
        sum += (((data[i] as u16) << 8) | data[i + 1] as u16) as u64;
        i += 2;
    }
    if i < data.len() {
        sum += ((data[i] as u16) << 8) as u64;
    }
    while sum >> 16 != 0 {
        sum = (sum & 0xffff) + (sum >> 16);
    }
    !(sum as u16)
}

pub const PROTO_UDP: u8 = 17;
pub const PROTO_SCMP: u8 = 202;

#[derive(Debug, Clone, PartialEq, Eq)]
pub struct RUdp {
    pub src_port: u16,
    pub dst_port: u16,
    pub length: u16,
    pub checksum: u16,
    pub data: Vec<u8>,
}

impl RUdp {
    pub fn decode(b: &[u8]) -> Option<RUdp> {
        if b.len() < 8 {
            return None;
        }
        Some(RUdp { src_port: be16(&b[0..2]), dst_port: be16(&b[2..4]), length: be16(&b[4..6]), checksum: be16(&b[6..8]), data: b[8..].to_vec() })
    }
}

#[derive(Debug, Clone, PartialEq, Eq)]
pub struct RScmp {
    pub typ: u8,
    pub code: u8,
    pub checksum: u16,
    /// everything after the 4-byte SCMP header
    pub body: Vec<u8>,
}

impl RScmp {
    pub fn decode(b: &[u8]) -> Option<RScmp> {
        if b.len() < 4 {
            return None;
        }
        Some(RScmp { typ: b[0], code: b[1], checksum: be16(&b[2..4]), body: b[4..].to_vec() })
    }
    pub fn is_error(&self) -> bool {
        self.typ < 128
    }
    /// length of the type-specific info block preceding the quoted packet, for the error types
    /// defined by the SCMP specification
    pub fn error_info_len(&self) -> Option<usize> {
        match self.typ {
            1 => Some(4),  // destination unreachable: unused(4)
            2 => Some(4),  // packet too big: reserved(2) MTU(2)
            4 => Some(4),  // parameter problem: reserved(2) pointer(2)
            5 => Some(16), // external interface down: ISD-AS(8) IfID(8)
            6 => Some(24), // internal connectivity down: ISD-AS(8) ingress(8) egress(8)
            _ => None,
        }
    }
}
