//! Reference components written from the SCION header / data-plane specifications and from the
//! property statements. Deliberately independent of `sciparse` (no shared layout tables).
pub mod combine;
pub mod mac;
pub mod router;
pub mod topo;
pub mod wire;
