//! Reference components written from the SCION header / data-plane specifications and from the
//! property statements. Deliberately independent of `sciparse` (no shared layout tables).
pub mod mac;
pub mod wire;
