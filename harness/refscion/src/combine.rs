//! Reference enumerator of end-to-end paths obtainable from a segment set by the SCION
//! combination rules: up / core / down joins, shortcuts at a common AS, on-path endpoints and
//! peering crossings; loop-free and de-duplicated; with the data-plane path, interface list, MTU
//! and expiry computed from the traversed entries.

use std::collections::BTreeMap;

use crate::{
    topo::{RSegment, RTopo},
    wire::{RHop, RInfo, RStdPath},
};

#[derive(Debug, Clone, Copy, PartialEq, Eq, Hash, PartialOrd, Ord)]
pub struct RHopUse {
    pub as_idx: usize,
    pub in_if: u16,
    pub eg_if: u16,
}

#[derive(Debug, Clone, PartialEq, Eq)]
pub struct RPathDesc {
    /// AS-level hops in travel order
    pub hops: Vec<RHopUse>,
    pub dp: RStdPath,
    pub mtu: u16,
    pub expiry: u32,
    /// e.g. "up+core+down", "up+down:shortcut", "up~down:peer", "up:onpath"
    pub kind: String,
    /// number of inter-AS links traversed
    pub links: usize,
}

impl RPathDesc {
    /// interface list as path metadata gives it: (AS, interface) for every link end in travel
    /// order
    pub fn interfaces(&self) -> Vec<(usize, u16)> {
        let mut v = vec![];
        for (k, h) in self.hops.iter().enumerate() {
            if k > 0 {
                v.push((h.as_idx, h.in_if));
            }
            if k + 1 < self.hops.len() {
                v.push((h.as_idx, h.eg_if));
            }
        }
        v
    }
}

#[derive(Debug, Clone, Copy, PartialEq, Eq)]
enum Dir {
    /// traversed in construction direction (core or down leg)
    Along,
    /// traversed against construction direction (core or up leg)
    Against,
}

#[derive(Debug, Clone, Copy)]
struct Leg<'a> {
    seg: &'a RSegment,
    /// index of the entry closest to the segment origin that is used
    cut: usize,
    /// peer entry used at `cut`
    peer: Option<usize>,
    dir: Dir,
}

/// hop fields of a leg in travel order: (as, travel-in, travel-eg, RHop, link-mtu to account,
/// as-mtu index)
struct LegHops {
    info: RInfo,
    hops: Vec<(usize, u16, u16, RHop)>,
    link_mtus: Vec<u16>,
    expiries: Vec<u32>,
}

fn rel_expiry(ts: u32, exp: u8) -> u32 {
    (ts as u64 + ((exp as u64 + 1) * 3375) / 10).min(u32::MAX as u64) as u32
}

fn leg_hops(l: &Leg) -> LegHops {
    let n = l.seg.entries.len();
    let mut hops = vec![];
    let mut link_mtus = vec![];
    let mut expiries = vec![];
    // construction order from cut to n-1
    for k in l.cut..n {
        let e = &l.seg.entries[k];
        let (hf, cin, ceg) = match (k == l.cut, l.peer) {
            (true, Some(pi)) => {
                let p = &e.peers[pi];
                link_mtus.push(p.peer_mtu);
                expiries.push(rel_expiry(l.seg.timestamp, p.exp));
                (RHop { flags: 0, exp: p.exp, cons_in: p.local_if, cons_eg: p.cons_eg, mac: p.mac }, p.local_if, p.cons_eg)
            }
            _ => {
                // the link towards the previous entry is traversed only below the cut
                if k > l.cut && e.ingress_mtu != 0 {
                    link_mtus.push(e.ingress_mtu);
                }
                expiries.push(rel_expiry(l.seg.timestamp, e.exp));
                // at a (non-peer) cut the construction-ingress side is not used
                let cin = if k == l.cut { 0 } else { e.cons_in };
                (RHop { flags: 0, exp: e.exp, cons_in: e.cons_in, cons_eg: e.cons_eg, mac: e.mac }, cin, e.cons_eg)
            }
        };
        hops.push((e.as_idx, cin, ceg, hf));
    }
    let along = l.dir == Dir::Along;
    let seg_id = if along {
        if l.peer.is_some() { l.seg.beta(l.cut + 1) } else { l.seg.beta(l.cut) }
    } else if l.peer.is_some() && l.cut == n - 1 {
        l.seg.beta(n)
    } else {
        l.seg.beta(n - 1)
    };
    if !along {
        hops.reverse();
        for h in hops.iter_mut() {
            std::mem::swap(&mut h.1, &mut h.2);
        }
    }
    LegHops {
        info: RInfo { flags: (along as u8) | ((l.peer.is_some() as u8) << 1), rsv: 0, seg_id, timestamp: l.seg.timestamp },
        hops,
        link_mtus,
        expiries,
    }
}

fn assemble(topo: &RTopo, legs: &[Leg], kind: &str) -> Option<RPathDesc> {
    let lh: Vec<LegHops> = legs.iter().map(leg_hops).collect();
    let mut hops: Vec<RHopUse> = vec![];
    for (li, l) in lh.iter().enumerate() {
        for (hi, (asx, tin, teg, _)) in l.hops.iter().enumerate() {
            let joins_previous = li > 0 && hi == 0 && hops.last().map(|h: &RHopUse| h.as_idx) == Some(*asx) && legs[li].peer.is_none();
            if joins_previous {
                hops.last_mut().unwrap().eg_if = *teg;
            } else {
                hops.push(RHopUse { as_idx: *asx, in_if: *tin, eg_if: *teg });
            }
        }
    }
    // loop-free
    for i in 0..hops.len() {
        for j in i + 1..hops.len() {
            if hops[i].as_idx == hops[j].as_idx {
                return None;
            }
        }
    }
    if hops.len() < 2 {
        return None;
    }
    hops.first_mut().unwrap().in_if = 0;
    hops.last_mut().unwrap().eg_if = 0;
    let mut seg_len = [0u8; 3];
    let mut infos = vec![];
    let mut hfs = vec![];
    for (li, l) in lh.iter().enumerate() {
        if l.hops.len() > 63 {
            return None;
        }
        seg_len[li] = l.hops.len() as u8;
        infos.push(l.info.clone());
        hfs.extend(l.hops.iter().map(|h| h.3.clone()));
    }
    if hfs.len() > 64 {
        return None;
    }
    let mut mtu = u16::MAX;
    for h in &hops {
        mtu = mtu.min(topo.ases[h.as_idx].mtu.min(u16::MAX as u32) as u16);
    }
    for l in &lh {
        for m in &l.link_mtus {
            mtu = mtu.min(*m);
        }
    }
    let expiry = lh.iter().flat_map(|l| l.expiries.iter().copied()).min().unwrap();
    let links = hops.len() - 1;
    Some(RPathDesc { hops, dp: RStdPath { curr_inf: 0, curr_hf: 0, rsv: 0, seg_len, infos, hops: hfs }, mtu, expiry, kind: kind.to_string(), links })
}

/// All paths from `src` to `dst` (AS indices) obtainable from the given segments.
/// `noncore` are used as up segments when they end at `src` and as down segments when they end at
/// `dst`; `core` segments are used in either direction.
/// All loop-free candidates, without de-duplication (several candidates may share one interface
/// sequence: the same route offered by different segments).
pub fn enumerate(topo: &RTopo, src: usize, dst: usize, core: &[RSegment], noncore: &[RSegment]) -> Vec<RPathDesc> {
    if src == dst {
        return vec![];
    }
    let mut out: Vec<RPathDesc> = vec![];
    let ups: Vec<&RSegment> = noncore.iter().filter(|s| s.last_as() == src).collect();
    let downs: Vec<&RSegment> = noncore.iter().filter(|s| s.last_as() == dst).collect();
    let mut push = |p: Option<RPathDesc>| {
        if let Some(p) = p {
            out.push(p);
        }
    };
    // up only (dst on the up segment)
    for u in &ups {
        for c in 0..u.entries.len() - 1 {
            if u.entries[c].as_idx == dst {
                push(assemble(topo, &[Leg { seg: u, cut: c, peer: None, dir: Dir::Against }], if c == 0 { "up" } else { "up:onpath" }));
            }
        }
    }
    // down only (src on the down segment)
    for d in &downs {
        for c in 0..d.entries.len() - 1 {
            if d.entries[c].as_idx == src {
                push(assemble(topo, &[Leg { seg: d, cut: c, peer: None, dir: Dir::Along }], if c == 0 { "down" } else { "down:onpath" }));
            }
        }
    }
    // core only
    for cs in core {
        if cs.first_as() == src && cs.last_as() == dst {
            push(assemble(topo, &[Leg { seg: cs, cut: 0, peer: None, dir: Dir::Along }], "core"));
        }
        if cs.last_as() == src && cs.first_as() == dst {
            push(assemble(topo, &[Leg { seg: cs, cut: 0, peer: None, dir: Dir::Against }], "core:inverted"));
        }
    }
    for u in &ups {
        // up + down at a common AS (core join or shortcut)
        for d in &downs {
            for cu in 0..u.entries.len() - 1 {
                for cd in 0..d.entries.len() - 1 {
                    if u.entries[cu].as_idx == d.entries[cd].as_idx {
                        let kind = if cu == 0 && cd == 0 { "up+down" } else { "up+down:shortcut" };
                        push(assemble(
                            topo,
                            &[Leg { seg: u, cut: cu, peer: None, dir: Dir::Against }, Leg { seg: d, cut: cd, peer: None, dir: Dir::Along }],
                            kind,
                        ));
                    }
                }
            }
            // peering crossing
            for cu in 0..u.entries.len() {
                for (pi, p) in u.entries[cu].peers.iter().enumerate() {
                    for cd in 0..d.entries.len() {
                        if d.entries[cd].as_idx != p.peer_as {
                            continue;
                        }
                        for (qi, q) in d.entries[cd].peers.iter().enumerate() {
                            if q.peer_as == u.entries[cu].as_idx && q.local_if == p.peer_if && q.peer_if == p.local_if {
                                push(assemble(
                                    topo,
                                    &[Leg { seg: u, cut: cu, peer: Some(pi), dir: Dir::Against }, Leg { seg: d, cut: cd, peer: Some(qi), dir: Dir::Along }],
                                    "up~down:peer",
                                ));
                            }
                        }
                    }
                }
            }
        }
        // up + core [+ down]
        for cs in core {
            for (cdir, cstart, cend) in [(Dir::Along, cs.first_as(), cs.last_as()), (Dir::Against, cs.last_as(), cs.first_as())] {
                if u.first_as() != cstart {
                    continue;
                }
                let ul = Leg { seg: u, cut: 0, peer: None, dir: Dir::Against };
                let cl = Leg { seg: cs, cut: 0, peer: None, dir: cdir };
                if cend == dst {
                    push(assemble(topo, &[ul, cl], if cdir == Dir::Along { "up+core:inverted" } else { "up+core" }));
                }
                for d in &downs {
                    if d.first_as() == cend {
                        push(assemble(topo, &[ul, cl, Leg { seg: d, cut: 0, peer: None, dir: Dir::Along }], if cdir == Dir::Along { "up+core+down:inverted" } else { "up+core+down" }));
                    }
                }
            }
        }
    }
    // core + down
    for cs in core {
        for (cdir, cstart, cend) in [(Dir::Along, cs.first_as(), cs.last_as()), (Dir::Against, cs.last_as(), cs.first_as())] {
            if cstart != src {
                continue;
            }
            for d in &downs {
                if d.first_as() == cend {
                    push(assemble(
                        topo,
                        &[Leg { seg: cs, cut: 0, peer: None, dir: cdir }, Leg { seg: d, cut: 0, peer: None, dir: Dir::Along }],
                        if cdir == Dir::Along { "core+down:inverted" } else { "core+down" },
                    ));
                }
            }
        }
    }
    out
}

pub fn combine(topo: &RTopo, src: usize, dst: usize, core: &[RSegment], noncore: &[RSegment]) -> Vec<RPathDesc> {
    let out = enumerate(topo, src, dst, core, noncore);
    // de-duplicate by interface sequence, keeping the latest expiry
    let mut best: BTreeMap<Vec<(usize, u16)>, RPathDesc> = BTreeMap::new();
    for p in out {
        let k = p.interfaces();
        match best.get(&k) {
            Some(q) if q.expiry >= p.expiry => {}
            _ => {
                best.insert(k, p);
            }
        }
    }
    let mut v: Vec<RPathDesc> = best.into_values().collect();
    v.sort_by(|a, b| a.links.cmp(&b.links).then(a.interfaces().cmp(&b.interfaces())));
    v
}

/// Does the topology connect src and dst through any sequence of segments at all (ignoring the
/// combination algorithm)? Used for the "whenever segments can be joined, at least one path is
/// offered" clause: true iff some up/core/down join exists.
pub fn joinable(topo: &RTopo, src: usize, dst: usize, core: &[RSegment], noncore: &[RSegment]) -> bool {
    !combine(topo, src, dst, core, noncore).is_empty()
}
