//! C10 — a SNAP token is accepted exactly when authentic, for SNAP, and within lifetime.
//!
//! Oracle: an independently written decision procedure (own strict base64url decoder, own claim
//! schema for v0/v1, ed25519-dalek signature check, explicit time window with the verifier's 60 s
//! leeway) is compared with the real `SnapTokenVerifier::verify` on systematic single-field
//! mutations of valid v0/v1 tokens, and with the real control-plane router (AuthMiddleware status,
//! lifetime handed to the identity registry).

use std::{
    net::SocketAddr,
    sync::{Arc, Mutex},
    time::{Duration, Instant, SystemTime, UNIX_EPOCH},
};

use ed25519_dalek::{Signer, SigningKey, Verifier};
use serde_json::{Map, Value, json};
use snap_control::server::SnapTokenVerifier;
use vmon::{Args, Mon, Rng, catch, par_run};

const LEEWAY: u64 = 60;
/// distance from a time boundary inside which no verdict is demanded (the verifier reads its own
/// clock a little later than the generator)
const GUARD: u64 = 4;

// ---------------------------------------------------------------------------------------------
// independent reference

fn b64_val(c: u8) -> Option<u8> {
    match c {
        b'A'..=b'Z' => Some(c - b'A'),
        b'a'..=b'z' => Some(c - b'a' + 26),
        b'0'..=b'9' => Some(c - b'0' + 52),
        b'-' => Some(62),
        b'_' => Some(63),
        _ => None,
    }
}

/// strict base64url without padding: only the url alphabet, no length ≡ 1 (mod 4), unused
/// trailing bits zero
fn b64url_strict(s: &str) -> Option<Vec<u8>> {
    let b = s.as_bytes();
    if b.len() % 4 == 1 {
        return None;
    }
    let mut out = Vec::with_capacity(b.len() * 3 / 4);
    let mut acc: u32 = 0;
    let mut bits = 0;
    for c in b {
        acc = (acc << 6) | b64_val(*c)? as u32;
        bits += 6;
        if bits >= 8 {
            bits -= 8;
            out.push((acc >> bits) as u8);
            acc &= (1 << bits) - 1;
        }
    }
    if acc != 0 {
        return None;
    }
    Some(out)
}

fn b64url_enc(b: &[u8]) -> String {
    const A: &[u8; 64] = b"ABCDEFGHIJKLMNOPQRSTUVWXYZabcdefghijklmnopqrstuvwxyz0123456789-_";
    let mut s = String::new();
    for ch in b.chunks(3) {
        let n = (ch[0] as u32) << 16 | (*ch.get(1).unwrap_or(&0) as u32) << 8 | *ch.get(2).unwrap_or(&0) as u32;
        s.push(A[(n >> 18) as usize & 63] as char);
        s.push(A[(n >> 12) as usize & 63] as char);
        if ch.len() > 1 {
            s.push(A[(n >> 6) as usize & 63] as char);
        }
        if ch.len() > 2 {
            s.push(A[n as usize & 63] as char);
        }
    }
    s
}

#[derive(Debug, Clone, PartialEq)]
enum Expect {
    Accept,
    Reject(&'static str),
    /// too close to a time boundary, or a shape the property does not decide
    Undecided(&'static str),
}

fn is_uint(v: &Value) -> bool {
    v.is_u64()
}

/// JSON text with duplicate keys?
fn has_duplicate_keys(text: &str) -> bool {
    // tiny scanner for the top-level object only: collect keys at depth 1
    let b = text.as_bytes();
    let mut depth = 0i32;
    let mut i = 0;
    let mut keys: Vec<String> = vec![];
    let mut expect_key = false;
    while i < b.len() {
        match b[i] {
            b'{' | b'[' => {
                depth += 1;
                if depth == 1 && b[i] == b'{' {
                    expect_key = true;
                }
            }
            b'}' | b']' => depth -= 1,
            b',' if depth == 1 => expect_key = true,
            b'"' => {
                let start = i + 1;
                i += 1;
                while i < b.len() && b[i] != b'"' {
                    if b[i] == b'\\' {
                        i += 1;
                    }
                    i += 1;
                }
                if depth == 1 && expect_key {
                    let k = String::from_utf8_lossy(&b[start..i.min(b.len())]).to_string();
                    if keys.contains(&k) {
                        return true;
                    }
                    keys.push(k);
                    expect_key = false;
                }
            }
            _ => {}
        }
        i += 1;
    }
    false
}

struct Trust {
    static_key: ed25519_dalek::VerifyingKey,
}

fn reference(token: &str, now: u64, trust: &Trust) -> Expect {
    let parts: Vec<&str> = token.split('.').collect();
    if parts.len() != 3 {
        return Expect::Reject("not three segments");
    }
    let Some(hb) = b64url_strict(parts[0]) else { return Expect::Reject("header base64") };
    let Ok(header) = serde_json::from_slice::<Value>(&hb) else { return Expect::Reject("header json") };
    let Some(h) = header.as_object() else { return Expect::Reject("header not an object") };
    if h.get("alg").and_then(|a| a.as_str()) != Some("EdDSA") {
        return Expect::Reject("alg is not EdDSA");
    }
    // unknown header parameters: strings are ignored; other shapes are not decided here (the JWT
    // library refuses them, RFC 7515 would ignore them; the property is silent)
    if h.iter().any(|(k, v)| !["alg", "typ", "kid", "cty", "jwk"].contains(&k.as_str()) && !v.is_string()) {
        return Expect::Undecided("non-string unknown header parameter");
    }
    for k in ["typ", "kid", "cty"] {
        if let Some(v) = h.get(k)
            && !v.is_string()
            && !v.is_null()
        {
            return Expect::Reject("header parameter is not a string");
        }
    }
    let Some(sig) = b64url_strict(parts[2]) else { return Expect::Reject("signature base64") };
    let Ok(sig) = ed25519_dalek::Signature::from_slice(&sig) else { return Expect::Reject("signature length") };
    let signing_input = format!("{}.{}", parts[0], parts[1]);
    if trust.static_key.verify(signing_input.as_bytes(), &sig).is_err() {
        return Expect::Reject("signature does not verify under the trusted key");
    }
    let Some(pb) = b64url_strict(parts[1]) else { return Expect::Reject("payload base64") };
    let Ok(text) = std::str::from_utf8(&pb) else { return Expect::Reject("payload utf8") };
    let Ok(claims) = serde_json::from_str::<Value>(text) else { return Expect::Reject("payload json") };
    let Some(c) = claims.as_object() else { return Expect::Reject("claims not an object") };
    if has_duplicate_keys(text) {
        return Expect::Undecided("duplicate claim names");
    }
    let str_claim = |k: &str| c.get(k).map(|v| v.is_string());
    let uint_claim = |k: &str| c.get(k).map(is_uint);
    match c.get("ver") {
        Some(v) => {
            if v.as_f64() == Some(1.0) && !v.is_u64() {
                return Expect::Undecided("ver 1.0");
            }
            if v.as_u64() != Some(1) {
                return Expect::Reject("unsupported version");
            }
            for k in ["iss", "aud", "jti", "pssid"] {
                match str_claim(k) {
                    None => return Expect::Reject("v1 claim missing"),
                    Some(false) => return Expect::Reject("v1 claim retyped"),
                    _ => {}
                }
            }
            for k in ["exp", "nbf", "iat"] {
                match uint_claim(k) {
                    None => return Expect::Reject("v1 claim missing"),
                    Some(false) => return Expect::Reject("v1 claim retyped"),
                    _ => {}
                }
            }
            let p = c["pssid"].as_str().unwrap();
            match b64url_strict(p) {
                Some(b) if b.len() == 17 && b[0] == 0 => {}
                _ => return Expect::Reject("v1 pssid malformed"),
            }
        }
        None => {
            match str_claim("jti") {
                None => return Expect::Reject("v0 jti missing"),
                Some(false) => return Expect::Reject("v0 jti retyped"),
                _ => {}
            }
            match uint_claim("exp") {
                None => return Expect::Reject("v0 exp missing"),
                Some(false) => return Expect::Reject("v0 exp retyped"),
                _ => {}
            }
            match c.get("pssid").map(|v| v.as_str()) {
                None => return Expect::Reject("v0 pssid missing"),
                Some(None) => return Expect::Reject("v0 pssid retyped"),
                Some(Some(s)) => {
                    // canonical hyphenated UUID only; other textual UUID forms are not decided
                    let canonical = s.len() == 36
                        && s.bytes().enumerate().all(|(i, b)| if [8, 13, 18, 23].contains(&i) { b == b'-' } else { b.is_ascii_hexdigit() });
                    if !canonical {
                        if uuid::Uuid::parse_str(s).is_ok() {
                            return Expect::Undecided("non-canonical uuid text");
                        }
                        return Expect::Reject("v0 pssid malformed");
                    }
                }
            }
        }
    }
    // audience
    match c.get("aud") {
        None => {}
        Some(Value::String(s)) => {
            if s != "snap" {
                return Expect::Reject("audience is not snap");
            }
        }
        Some(Value::Array(a)) if !a.is_empty() && a.iter().all(|x| x.is_string()) => {
            if !a.iter().any(|x| x == "snap") {
                return Expect::Reject("audience list lacks snap");
            }
        }
        Some(_) => return Expect::Undecided("audience of another shape"),
    }
    // validity window
    let exp = c["exp"].as_u64().unwrap();
    let lower = now.saturating_sub(LEEWAY);
    if exp.abs_diff(lower) <= GUARD {
        return Expect::Undecided("exp at the leeway boundary");
    }
    if exp < lower {
        return Expect::Reject("expired");
    }
    match c.get("nbf") {
        None => {}
        Some(v) if v.is_u64() => {
            let nbf = v.as_u64().unwrap();
            let upper = now + LEEWAY;
            if nbf.abs_diff(upper) <= GUARD {
                return Expect::Undecided("nbf at the leeway boundary");
            }
            if nbf > upper {
                return Expect::Reject("not yet valid (nbf in the future)");
            }
        }
        Some(_) => return Expect::Undecided("nbf of another shape in a v0 token"),
    }
    Expect::Accept
}

// ---------------------------------------------------------------------------------------------
// token construction

fn sign(key: &SigningKey, header: &str, payload: &str) -> String {
    let h = b64url_enc(header.as_bytes());
    let p = b64url_enc(payload.as_bytes());
    let sig = key.sign(format!("{h}.{p}").as_bytes());
    format!("{h}.{p}.{}", b64url_enc(&sig.to_bytes()))
}

fn now_secs() -> u64 {
    SystemTime::now().duration_since(UNIX_EPOCH).unwrap().as_secs()
}

fn valid_claims(r: &mut Rng, v1: bool, now: u64) -> Map<String, Value> {
    let uuid: [u8; 16] = r.bytes(16).try_into().unwrap();
    let mut m = Map::new();
    if v1 {
        let mut p = vec![0u8];
        p.extend_from_slice(&uuid);
        m.insert("ver".into(), json!(1));
        m.insert("iss".into(), json!("ssr"));
        m.insert("aud".into(), json!("snap"));
        m.insert("exp".into(), json!(now + r.range(100, 86400)));
        m.insert("nbf".into(), json!(now - r.range(0, 1000)));
        m.insert("iat".into(), json!(now - r.range(0, 1000)));
        m.insert("jti".into(), json!(format!("jti-{}", r.u32())));
        m.insert("pssid".into(), json!(b64url_enc(&p)));
        if r.chance(1, 3) {
            m.insert("aa_acc_subject_id".into(), json!("subject"));
        }
    } else {
        m.insert("pssid".into(), json!(uuid::Uuid::from_bytes(uuid).hyphenated().to_string()));
        m.insert("exp".into(), json!(now + r.range(100, 86400)));
        m.insert("jti".into(), json!(format!("jti-{}", r.u32())));
        match r.below(5) {
            0 => {
                m.insert("aud".into(), json!("snap"));
            }
            1 => {
                m.insert("aud".into(), json!(["other", "snap"]));
            }
            2 => {
                m.insert("nbf".into(), json!(now - r.range(0, 1000)));
            }
            _ => {}
        }
    }
    m
}

fn header_json(r: &mut Rng) -> Map<String, Value> {
    let mut h = Map::new();
    h.insert("alg".into(), json!("EdDSA"));
    match r.below(4) {
        0 => {}
        1 => {
            h.insert("typ".into(), json!("JWT"));
        }
        2 => {
            h.insert("typ".into(), json!("JWT"));
            h.insert("kid".into(), json!("ssr-key-1"));
        }
        _ => {
            h.insert("kid".into(), json!(format!("k{}", r.u8())));
        }
    }
    h
}

fn retypes(orig: &Value, r: &mut Rng) -> Vec<Value> {
    let mut v = vec![json!(null), json!(true), json!([]), json!({}), json!([orig.clone()]), json!(-1), json!(1.5), json!("")];
    match orig {
        Value::Number(n) => {
            v.push(json!(n.to_string()));
            v.push(json!(n.as_u64().unwrap_or(0) as f64 + 0.5));
            v.push(json!(-(n.as_u64().unwrap_or(0) as i64)));
        }
        Value::String(s) => {
            v.push(json!(r.u32()));
            v.push(json!([s, s]));
        }
        _ => {}
    }
    v
}

struct Case {
    family: &'static str,
    token: String,
}

/// all systematic single-field mutations around one valid token
fn mutations(r: &mut Rng, now: u64, trusted: &SigningKey, untrusted: &SigningKey, thorough: bool) -> Vec<Case> {
    let mut out = vec![];
    let v1 = r.bool();
    let claims = valid_claims(r, v1, now);
    let header = header_json(r);
    let hs = serde_json::to_string(&header).unwrap();
    let ps = serde_json::to_string(&claims).unwrap();
    let base = sign(trusted, &hs, &ps);
    let mut push = |family: &'static str, token: String| out.push(Case { family, token });
    push("valid", base.clone());

    // --- header
    for alg in [json!("none"), json!("None"), json!("HS256"), json!("HS512"), json!("RS256"), json!("ES256"), json!("eddsa"), json!("EDDSA"), json!("Ed25519"), json!(null), json!(5), json!(["EdDSA"])] {
        let mut h = header.clone();
        h.insert("alg".into(), alg);
        let hs2 = serde_json::to_string(&h).unwrap();
        push("header-alg", sign(trusted, &hs2, &ps));
        // same with the signature dropped
        let t = sign(trusted, &hs2, &ps);
        let cut = t.rfind('.').unwrap();
        push("header-alg-nosig", t[..=cut].to_string());
    }
    {
        let mut h = header.clone();
        h.remove("alg");
        push("header-alg", sign(trusted, &serde_json::to_string(&h).unwrap(), &ps));
        // HS256 with the public key as HMAC secret (algorithm confusion)
        let pk = trusted.verifying_key();
        for secret in [pk.as_bytes().to_vec(), b64url_enc(pk.as_bytes()).into_bytes()] {
            let t = jsonwebtoken::encode(&jsonwebtoken::Header::new(jsonwebtoken::Algorithm::HS256), &Value::Object(claims.clone()), &jsonwebtoken::EncodingKey::from_secret(&secret)).unwrap();
            push("alg-confusion-hs256", t);
        }
        for (k, v) in [("typ", json!("at+jwt")), ("typ", json!("jwt")), ("typ", json!(7)), ("kid", json!(7)), ("kid", json!("")), ("kid", json!("unknown-kid")), ("cty", json!("JWT")), ("x-extra", json!("v")), ("x-extra", json!({"a": 1}))] {
            let mut h = header.clone();
            h.insert(k.into(), v);
            push("header-param", sign(trusted, &serde_json::to_string(&h).unwrap(), &ps));
        }
        push("header-shape", sign(trusted, "[]", &ps));
        push("header-shape", sign(trusted, "\"EdDSA\"", &ps));
        push("header-shape", sign(trusted, "{", &ps));
    }

    // --- claims: remove / retype / retime
    for k in claims.keys() {
        let mut c = claims.clone();
        c.remove(k);
        push("claim-removed", sign(trusted, &hs, &serde_json::to_string(&c).unwrap()));
        for nv in retypes(&claims[k], r) {
            let mut c = claims.clone();
            c.insert(k.clone(), nv);
            push("claim-retyped", sign(trusted, &hs, &serde_json::to_string(&c).unwrap()));
        }
    }
    for (k, vals) in [
        ("exp", vec![0u64, 1, now - 86400, now - 3600, now - LEEWAY - 30, now - LEEWAY + 30, now - 10, now, now + 10, now + 3600, u32::MAX as u64, u64::MAX]),
        ("nbf", vec![0, now - 3600, now - 10, now + 10, now + LEEWAY - 30, now + LEEWAY + 30, now + 3600, now + 86400 * 365, u64::MAX]),
        ("iat", vec![0, now - 3600, now + 3600, u64::MAX]),
    ] {
        for v in vals {
            let mut c = claims.clone();
            c.insert(k.into(), json!(v));
            push("claim-retimed", sign(trusted, &hs, &serde_json::to_string(&c).unwrap()));
        }
    }
    // window that ended before it began / began after the end
    {
        let mut c = claims.clone();
        c.insert("nbf".into(), json!(now + 7200));
        c.insert("exp".into(), json!(now + 3600));
        push("claim-retimed", sign(trusted, &hs, &serde_json::to_string(&c).unwrap()));
    }
    for ver in [json!(0), json!(2), json!(3), json!("1"), json!(-1), json!(null), json!(true), json!(1e30), json!([1])] {
        let mut c = claims.clone();
        c.insert("ver".into(), ver);
        push("claim-version", sign(trusted, &hs, &serde_json::to_string(&c).unwrap()));
    }
    for aud in [json!("SNAP"), json!("snap "), json!("other"), json!(""), json!(["other"]), json!(["snap"]), json!(["a", "b", "snap"]), json!(["Snap", "snapx"])] {
        let mut c = claims.clone();
        c.insert("aud".into(), aud);
        push("claim-audience", sign(trusted, &hs, &serde_json::to_string(&c).unwrap()));
    }
    for p in [json!("AAAAAAAAAAAAAAAAAAAAAAA"), json!("AQAAAAAAAAAAAAAAAAAAAAA"), json!("AAAAAAAAAAAAAAAAAAAAAA"), json!("not-a-pssid"), json!("00000000-0000-0000-0000-000000000000"), json!("0000000000000000000000000000000g")] {
        let mut c = claims.clone();
        c.insert("pssid".into(), p);
        push("claim-pssid", sign(trusted, &hs, &serde_json::to_string(&c).unwrap()));
    }
    push("claims-shape", sign(trusted, &hs, "[]"));
    push("claims-shape", sign(trusted, &hs, "null"));
    push("claims-shape", sign(trusted, &hs, "{}"));
    push("claims-shape", sign(trusted, &hs, &ps[..ps.len() - 1]));
    // duplicate names (verdict demanded only where both readings agree is too weak to state: the
    // reference declares these undecided, they still must not panic)
    push("claims-duplicate", sign(trusted, &hs, &format!("{},\"exp\":1}}", &ps[..ps.len() - 1])));

    // --- key
    push("untrusted-key", sign(untrusted, &hs, &ps));
    {
        let mut h = header.clone();
        h.insert("kid".into(), json!("ssr-key-1"));
        push("untrusted-key", sign(untrusted, &serde_json::to_string(&h).unwrap(), &ps));
        // embedded key in the header must not be trusted
        h.insert("jwk".into(), json!({"kty": "OKP", "crv": "Ed25519", "x": b64url_enc(untrusted.verifying_key().as_bytes())}));
        push("untrusted-key-embedded-jwk", sign(untrusted, &serde_json::to_string(&h).unwrap(), &ps));
    }

    // --- signature
    let (h_b64, rest) = base.split_once('.').unwrap();
    let (p_b64, s_b64) = rest.split_once('.').unwrap();
    let sig = b64url_strict(s_b64).unwrap();
    let nflips = if thorough { 512 } else { 24 };
    for i in 0..nflips {
        let bit = if thorough { i } else { r.usize(512) };
        let mut s = sig.clone();
        s[bit / 8] ^= 1 << (bit % 8);
        push("signature-bitflip", format!("{h_b64}.{p_b64}.{}", b64url_enc(&s)));
    }
    for s in [vec![], sig[..63].to_vec(), [sig.clone(), vec![0]].concat(), vec![0u8; 64], sig[..32].to_vec()] {
        push("signature-length", format!("{h_b64}.{p_b64}.{}", b64url_enc(&s)));
    }
    // --- payload / header text altered under the old signature
    for _ in 0..(if thorough { 64 } else { 12 }) {
        let mut p = p_b64.as_bytes().to_vec();
        let i = r.usize(p.len());
        let alphabet = b"ABCDEFGHIJKLMNOPQRSTUVWXYZabcdefghijklmnopqrstuvwxyz0123456789-_";
        let mut nc = *r.pick(alphabet);
        if nc == p[i] {
            nc = if nc == b'A' { b'B' } else { b'A' };
        }
        p[i] = nc;
        push("payload-altered", format!("{h_b64}.{}.{s_b64}", String::from_utf8(p).unwrap()));
        let mut h = h_b64.as_bytes().to_vec();
        let i = r.usize(h.len());
        let mut nc = *r.pick(alphabet);
        if nc == h[i] {
            nc = if nc == b'A' { b'B' } else { b'A' };
        }
        h[i] = nc;
        push("header-altered", format!("{}.{p_b64}.{s_b64}", String::from_utf8(h).unwrap()));
    }
    {
        // a claim changed, the signature kept
        let mut c = claims.clone();
        c.insert("exp".into(), json!(now + 10 * 86400));
        push("payload-altered", format!("{h_b64}.{}.{s_b64}", b64url_enc(serde_json::to_string(&c).unwrap().as_bytes())));
    }
    // --- splicing between two valid tokens
    {
        let claims2 = valid_claims(r, !v1, now);
        let header2 = header_json(r);
        let other = sign(trusted, &serde_json::to_string(&header2).unwrap(), &serde_json::to_string(&claims2).unwrap());
        let a: Vec<&str> = base.split('.').collect();
        let b: Vec<&str> = other.split('.').collect();
        for m in 1..7u8 {
            let pick = |i: usize| if m >> i & 1 == 1 { b[i] } else { a[i] };
            push("splice", format!("{}.{}.{}", pick(0), pick(1), pick(2)));
        }
        push("splice", format!("{}.{}", base, b[2]));
        push("splice", format!("{}.{}.{}.{}", a[0], a[1], b[1], a[2]));
    }
    // --- base64 / framing variants
    {
        let std = |s: &str| s.replace('-', "+").replace('_', "/");
        push("base64-variant", format!("{h_b64}.{p_b64}.{s_b64}=="));
        push("base64-variant", format!("{h_b64}.{p_b64}=.{s_b64}"));
        push("base64-variant", format!("{h_b64}=.{p_b64}.{s_b64}"));
        if std(s_b64) != s_b64 {
            push("base64-variant", format!("{h_b64}.{p_b64}.{}", std(s_b64)));
        }
        push("base64-variant", format!("{h_b64}.{p_b64}.{s_b64}\n"));
        push("base64-variant", format!(" {h_b64}.{p_b64}.{s_b64}"));
        push("base64-variant", format!("{h_b64}.{p_b64}.{s_b64} "));
        push("base64-variant", format!("{h_b64}.{p_b64}.{s_b64}."));
        push("base64-variant", format!(".{h_b64}.{p_b64}.{s_b64}"));
        push("base64-variant", format!("{h_b64}.{p_b64}"));
        push("base64-variant", format!("{h_b64}.{p_b64}."));
        push("base64-variant", format!("{h_b64}..{s_b64}"));
        push("base64-variant", format!("Bearer {base}"));
        // non-canonical trailing bits of the signature (64 bytes -> 86 chars, 4 unused bits)
        let mut s = s_b64.as_bytes().to_vec();
        let last = *s.last().unwrap();
        let v = b64_val(last).unwrap();
        if v & 0xf == 0 {
            const A: &[u8; 64] = b"ABCDEFGHIJKLMNOPQRSTUVWXYZabcdefghijklmnopqrstuvwxyz0123456789-_";
            *s.last_mut().unwrap() = A[(v | 1) as usize];
            push("base64-trailing-bits", format!("{h_b64}.{p_b64}.{}", String::from_utf8(s).unwrap()));
        }
    }
    // --- arbitrary strings
    for _ in 0..6 {
        let n = *r.pick(&[0usize, 1, 5, 40, 200, 2000]);
        let bytes = r.bytes(n);
        push("random", String::from_utf8_lossy(&bytes).to_string());
        push("random", b64url_enc(&bytes));
        let n2 = r.usize(30);
        push("random", format!("{}.{}.{}", b64url_enc(&r.bytes(n2)), b64url_enc(&bytes), b64url_enc(&r.bytes(64))));
    }
    push("random", String::new());
    push("random", "..".into());
    push("random", "a.b.c".into());
    out
}

// ---------------------------------------------------------------------------------------------
// router plumbing (AuthMiddleware + RegisterSnapTunIdentity handler)

#[derive(Default)]
struct RecordingRegistry {
    calls: Mutex<Vec<(String, Duration)>>,
}

impl snap_control::api::crpc::model::SnapTunIdentityRegistry for RecordingRegistry {
    fn register(&self, _now: Instant, key: &str, _id: [u8; 32], _psk: Option<[u8; 32]>, lifetime: Duration, _claims: &snap_tokens::AnyClaims) -> anyhow::Result<bool> {
        self.calls.lock().unwrap().push((key.to_string(), lifetime));
        Ok(true)
    }

    fn remove_expired(&self, _now: Instant) {}
}

struct NoUnderlays;
impl snap_control::model::UnderlayDiscovery for NoUnderlays {
    fn list_snap_underlays(&self) -> Vec<snap_control::model::SnapUnderlay> {
        vec![]
    }

    fn list_udp_underlays(&self) -> Vec<snap_control::model::UdpUnderlay> {
        vec![]
    }
}

struct NoSegments;
#[async_trait::async_trait]
impl endhost_api_models::SegmentsDiscovery for NoSegments {
    async fn list_segments(&self, _src: sciparse::identifier::isd_asn::IsdAsn, _dst: sciparse::identifier::isd_asn::IsdAsn, _page_size: i32, _page_token: String) -> Result<sciparse::segment::SegmentsPage, endhost_api_models::SegmentsError> {
        Err(endhost_api_models::SegmentsError::InternalError("none".into()))
    }
}

struct NoResolver;
impl snap_control::api::crpc::model::SnapDataPlaneResolver for NoResolver {
    fn get_data_plane_address(&self, _ip: std::net::IpAddr) -> Result<snap_control::api::crpc::model::SnapDataPlane, (axum::http::StatusCode, anyhow::Error)> {
        Ok(snap_control::api::crpc::model::SnapDataPlane { address: "127.0.0.1:1".parse().unwrap(), snap_tun_control_address: None, snap_static_x25519: None })
    }
}

fn build_router(verifier: SnapTokenVerifier, reg: Arc<RecordingRegistry>) -> axum::Router {
    snap_control::server::build_router(
        NoUnderlays,
        "http://127.0.0.1:1/".parse().unwrap(),
        NoSegments,
        NoResolver,
        reg,
        None,
        verifier,
        snap_control::server::metrics::Metrics::new(&scion_sdk_observability::metrics::registry::MetricsRegistry::new()),
    )
    .expect("router")
}

async fn call_register(router: &axum::Router, token: &str) -> Option<http::StatusCode> {
    use prost::Message;
    use tower::ServiceExt;
    let body = snap_control::proto::anapaya::snap::v1::RegisterSnapTunIdentityRequest { initiator_static_x25519: vec![7u8; 32], psk_share: vec![0u8; 32] }.encode_to_vec();
    let hv = http::HeaderValue::from_bytes(format!("Bearer {token}").as_bytes()).ok()?;
    let mut req = http::Request::builder()
        .method("POST")
        .uri("/anapaya.snap.v1.SnapControl/RegisterSnapTunIdentity")
        .header("content-type", "application/proto")
        .header("authorization", hv)
        .body(axum::body::Body::from(body))
        .ok()?;
    req.extensions_mut().insert(axum::extract::ConnectInfo::<SocketAddr>("127.0.0.1:9".parse().unwrap()));
    let resp = router.clone().oneshot(req).await.ok()?;
    Some(resp.status())
}

// ---------------------------------------------------------------------------------------------

fn shape_of(e: &Expect) -> &'static str {
    match e {
        Expect::Accept => "accept",
        Expect::Reject(r) => r,
        Expect::Undecided(r) => r,
    }
}

pub fn run(args: &Args, mon: &mut Mon) -> (String, Vec<&'static str>) {
    mon.floor("judged", 2000);
    mon.floor("expected_accept", 100);
    mon.floor("expected_reject", 1000);
    mon.floor("router_judged", 200);
    mon.floor("router_registrations", 20);
    let thorough = args.thorough();
    let scale = args.param_u64("scale", 1);
    let seed = args.seed;

    let trusted = scion_sdk_token_validator::validator::insecure_const_ed25519_signing_key();
    let untrusted = SigningKey::from_bytes(&[99u8; 32]);
    let (_, decoding_key) = snap_tokens::v0::insecure_const_snap_token_key_pair();
    let verifier = SnapTokenVerifier::new(decoding_key);
    let trust = Trust { static_key: trusted.verifying_key() };

    let rounds: u64 = if thorough { 600 * scale } else { 40 * scale };
    par_run(mon, args.threads, rounds, |i, m| {
        if !args.mine(i) {
            return;
        }
        let rt = tokio::runtime::Builder::new_current_thread().enable_all().build().unwrap();
        let mut r = Rng::fork(seed, 0x1000_0000 + i);
        let now = now_secs();
        let reg = Arc::new(RecordingRegistry::default());
        let router = build_router(verifier.clone(), reg.clone());
        for (ci, case) in mutations(&mut r, now, &trusted, &untrusted, thorough).into_iter().enumerate() {
            m.eval();
            let expect = reference(&case.token, now, &trust);
            m.shape(&(case.family, shape_of(&expect)));
            let replay = json!({"seed": seed, "round": i, "case": ci, "family": case.family, "token": case.token, "generated_at": now, "reference": format!("{expect:?}")});
            // --- the verifier itself
            let got = catch(|| rt.block_on(verifier.verify(&case.token)));
            let accepted = match got {
                Err(p) => {
                    m.violation(format!("panic:SnapTokenVerifier::verify:{}", p.site()), p.0, replay.clone());
                    continue;
                }
                Ok(r) => r.is_ok(),
            };
            match &expect {
                Expect::Undecided(_) => {
                    m.count("undecided");
                }
                Expect::Accept => {
                    m.count("judged");
                    m.count("expected_accept");
                    if !accepted {
                        m.violation(format!("valid-token-refused:{}", case.family), format!("a token the reference accepts was refused (family {})", case.family), replay.clone());
                    }
                }
                Expect::Reject(why) => {
                    m.count("judged");
                    m.count("expected_reject");
                    if accepted {
                        m.violation(format!("accepted:{why}"), format!("token accepted although: {why} (family {})", case.family), replay.clone());
                    }
                }
            }
            // --- the control-plane route (every 3rd case, all accepted ones)
            if ci % 3 == 0 || expect == Expect::Accept {
                let before = reg.calls.lock().unwrap().len();
                let t0 = now_secs();
                let status = catch(|| rt.block_on(call_register(&router, &case.token)));
                let status = match status {
                    Err(p) => {
                        let msg: String = p.0.split(" @ ").next().unwrap_or("").chars().take(80).collect();
                        m.violation(format!("panic:router:{msg}"), p.0, replay.clone());
                        continue;
                    }
                    Ok(s) => s,
                };
                let calls = reg.calls.lock().unwrap()[before..].to_vec();
                let Some(status) = status else { continue }; // not expressible as a header value
                match &expect {
                    Expect::Undecided(_) => {}
                    Expect::Reject(why) => {
                        m.count("router_judged");
                        if status != http::StatusCode::UNAUTHORIZED || !calls.is_empty() {
                            m.violation(format!("router-accepted:{why}"), format!("route answered {status} / registered {} identities for a token that must be refused: {why}", calls.len()), replay.clone());
                        }
                    }
                    Expect::Accept => {
                        m.count("router_judged");
                        if status == http::StatusCode::UNAUTHORIZED {
                            m.violation(format!("router-refused-valid:{}", case.family), format!("route answered 401 for a valid token (family {})", case.family), replay.clone());
                        }
                    }
                }
                // lifetime never exceeds what is left of the token
                let exp = b64url_strict(case.token.split('.').nth(1).unwrap_or("")).and_then(|b| serde_json::from_slice::<Value>(&b).ok()).and_then(|v| v.get("exp").and_then(|e| e.as_u64()));
                for (_, lifetime) in &calls {
                    m.count("router_registrations");
                    let remaining = exp.map(|e| e.saturating_sub(t0)).unwrap_or(0);
                    if lifetime.as_secs() > remaining {
                        m.violation("lifetime-exceeds-token", format!("registered lifetime {}s exceeds the token's remaining {}s", lifetime.as_secs(), remaining), replay.clone());
                    }
                }
                if calls.len() > 1 {
                    m.violation("registered-more-than-once", format!("one request registered {} identities", calls.len()), replay.clone());
                }
            }
        }
    });
    mon.sample_labeled("family", || json!({"families": ["valid", "header-alg", "header-alg-nosig", "alg-confusion-hs256", "header-param", "header-shape", "claim-removed", "claim-retyped", "claim-retimed", "claim-version", "claim-audience", "claim-pssid", "claims-shape", "claims-duplicate", "untrusted-key", "untrusted-key-embedded-jwk", "signature-bitflip", "signature-length", "payload-altered", "header-altered", "splice", "base64-variant", "base64-trailing-bits", "random"]}));

    (
        format!("{rounds} valid v0/v1 tokens (random claims, headers with/without typ/kid, private claims, audience string/list), each with every systematic mutation: alg values incl. none/HS256-with-public-key, header parameters retyped, every claim removed / retyped (12 shapes) / retimed (exp, nbf, iat around now and the 60 s leeway), versions, audiences, pssid forms, untrusted and header-embedded keys, {} signature bit flips, signature lengths, altered header/payload text under the old signature, all segment splices of two valid tokens, base64 variants (padding, standard alphabet, whitespace, trailing bits, segment counts) and random strings. Each token is judged by the reference and by SnapTokenVerifier::verify; every third token (and every valid one) additionally goes through the real router (AuthMiddleware status, lifetime passed to the registry). distinct = (family, reference verdict/reason) pairs.", if thorough { "all 512" } else { "24 sampled" }),
        vec![
            "trusted: the reference decision procedure in chk-snap/src/c10.rs, ed25519-dalek signature verification, serde_json",
            "the verifier's leeway is 60 s (jsonwebtoken default); tokens whose exp/nbf lie within 4 s of a window boundary are not judged",
            "not decided by the property and not judged: duplicate claim names, 'ver': 1.0, non-string/empty audiences in v0 tokens, non-canonical UUID text",
            "the JWKS-resolved key path (HTTP fetch) is not driven; with no JWKS store a kid falls back to the static key",
        ],
    )
}
