//! C08 — SNAP ingress filter: no spoofed source and no unsupported path type enters SCION.
//!
//! The gateway's per-datagram decision (the `Forwarded` branch of `TunnelGateway::start_server`:
//! `inbound_datagram_check`, `Dispatcher::try_dispatch`, `create_scmp_error` into a pool buffer) is
//! driven through the `verif-hooks` wrapper of snap-dataplane. Oracle: a positional predicate on
//! the raw bytes (source address type/length nibbles, source host bytes at their offset, path type
//! byte) plus the independent reference decoder of refscion.

use std::{
    net::{IpAddr, Ipv4Addr, Ipv6Addr},
    sync::Mutex,
    time::Duration,
};

use refscion::wire::{RHop, RInfo, RPacket, RPath, RScmp, RStdPath};
use serde_json::json;
use snap_dataplane::{
    dispatcher::Dispatcher,
    tunnel_gateway::gateway::verif_hooks::{IngressDecision, IngressHook},
};
use vmon::{Args, Mon, Rng, catch, hex, par_run};

const BUF: usize = 9216;

#[derive(Default)]
struct Recorder {
    calls: Mutex<Vec<Vec<u8>>>,
}

impl Dispatcher for Recorder {
    fn try_dispatch(&self, packet: &sciparse::packet::view::ScionPacketView) {
        use sciparse::core::view::View;
        self.calls.lock().unwrap().push(packet.as_slice().to_vec());
    }
}

/// what the raw bytes say about source host and path type, read at fixed offsets
struct Positional {
    src_is_ip: Option<IpAddr>,
    path_type: u8,
}

fn positional(d: &[u8]) -> Option<Positional> {
    if d.len() < 12 {
        return None;
    }
    let path_type = d[8];
    let dl = (d[9] >> 4) & 3;
    let st = (d[9] >> 2) & 3;
    let sl = d[9] & 3;
    let off = 12 + 16 + 4 * (dl as usize + 1);
    let slen = 4 * (sl as usize + 1);
    if d.len() < off + slen {
        return None;
    }
    let src = &d[off..off + slen];
    let src_is_ip = match (st, sl) {
        (0, 0) => Some(IpAddr::V4(Ipv4Addr::new(src[0], src[1], src[2], src[3]))),
        (0, 3) => Some(IpAddr::V6(Ipv6Addr::from(<[u8; 16]>::try_from(src).unwrap()))),
        _ => None,
    };
    Some(Positional { src_is_ip, path_type })
}

fn ip_bytes(ip: IpAddr) -> Vec<u8> {
    match ip {
        IpAddr::V4(a) => a.octets().to_vec(),
        IpAddr::V6(a) => a.octets().to_vec(),
    }
}

fn random_ip(r: &mut Rng) -> IpAddr {
    match r.below(6) {
        0 => IpAddr::V4(Ipv4Addr::new(10, 0, 0, r.u8())),
        1 => IpAddr::V4(Ipv4Addr::from(r.u32())),
        2 => IpAddr::V6(Ipv6Addr::from(<[u8; 16]>::try_from(r.bytes(16)).unwrap())),
        3 => IpAddr::V6(Ipv4Addr::new(10, 0, 0, r.u8()).to_ipv6_mapped()),
        4 => IpAddr::V4(Ipv4Addr::UNSPECIFIED),
        _ => IpAddr::V6(Ipv6Addr::LOCALHOST),
    }
}

fn random_std_path(r: &mut Rng) -> RStdPath {
    let a = r.range(1, 5) as u8;
    let b = if r.bool() { r.range(1, 4) as u8 } else { 0 };
    let c = if b > 0 && r.bool() { r.range(1, 4) as u8 } else { 0 };
    let seg_len = [a, b, c];
    let nh = RStdPath::n_hops(seg_len);
    let ni = RStdPath::n_infos(seg_len);
    let curr_hf = r.usize(nh) as u8;
    let curr_inf = if (curr_hf as usize) < a as usize { 0 } else if (curr_hf as usize) < (a + b) as usize { 1 } else { 2 };
    RStdPath {
        curr_inf,
        curr_hf,
        rsv: 0,
        seg_len,
        infos: (0..ni).map(|_| RInfo { flags: r.u8() & 3, rsv: 0, seg_id: r.u16(), timestamp: r.u32() }).collect(),
        hops: (0..nh).map(|_| RHop { flags: 0, exp: r.u8(), cons_in: r.u16(), cons_eg: r.u16(), mac: <[u8; 6]>::try_from(r.bytes(6)).unwrap() }).collect(),
    }
}

/// (src type, src host bytes)
fn src_host(r: &mut Rng, peer: IpAddr, kind: u64) -> (u8, Vec<u8>) {
    match kind {
        // the peer itself
        0 => (0, ip_bytes(peer)),
        // another address of the same family
        1 => {
            let mut b = ip_bytes(peer);
            let i = r.usize(b.len());
            b[i] ^= 1 << r.below(8);
            (0, b)
        }
        // the other family: v4 peer as v4-mapped v6 and vice versa
        2 => match peer {
            IpAddr::V4(a) => (0, a.to_ipv6_mapped().octets().to_vec()),
            IpAddr::V6(a) => (0, a.to_ipv4_mapped().map(|x| x.octets().to_vec()).unwrap_or_else(|| a.octets()[12..].to_vec())),
        },
        // service address whose bytes equal the (v4) peer address
        3 => (1, ip_bytes(peer)[..4].to_vec()),
        // type 0 with the unused lengths 8 / 12, bytes starting with the peer address
        4 => {
            let n = *r.pick(&[8usize, 12]);
            let mut b = ip_bytes(peer);
            b.resize(n.max(4), 0);
            b.truncate(n);
            (0, b)
        }
        // unknown types 2, 3 carrying the peer address
        5 => (*r.pick(&[2u8, 3]), ip_bytes(peer)),
        // type 1 (service) with 16 bytes = peer v6
        6 => (1, {
            let mut b = ip_bytes(peer);
            b.resize(16, 0);
            b
        }),
        _ => (r.u8() & 3, r.bytes_pick(&[4, 8, 12, 16])),
    }
}

struct Built {
    bytes: Vec<u8>,
    /// built as a completely valid packet from the peer over a supported path
    must_pass: bool,
    family: &'static str,
}

fn build(r: &mut Rng, peer: IpAddr) -> Built {
    let src_kind = r.below(9);
    let (st, src) = src_host(r, peer, src_kind);
    let path_kind = r.below(8);
    let (path_type, path) = match path_kind {
        0 | 1 => (0u8, RPath::Empty),
        2 | 3 | 4 => (1, RPath::Standard(random_std_path(r))),
        5 => (2, RPath::OneHop { info: RInfo { flags: 1, rsv: 0, seg_id: r.u16(), timestamp: r.u32() }, hops: [RHop { flags: 0, exp: 63, cons_in: 0, cons_eg: r.u16(), mac: [1; 6] }, RHop { flags: 0, exp: 63, cons_in: 0, cons_eg: 0, mac: [0; 6] }] }),
        _ => {
            let t = *r.pick(&[3u8, 4, 5, 127, 128, 255]);
            let n = 4 * r.usize(20);
            (t, RPath::Opaque { path_type: t, data: r.bytes(n) })
        }
    };
    let (dt, dst) = match r.below(4) {
        0 => (0u8, r.bytes(4)),
        1 => (0, r.bytes(16)),
        2 => (1, r.bytes(4)),
        _ => (r.u8() & 3, r.bytes_pick(&[4, 8, 12, 16])),
    };
    let payload_len = *r.pick(&[0usize, 1, 8, 100, 1200, 8000, 9000]);
    let payload_len = if payload_len > 1200 { payload_len.min(BUF - 400) } else { payload_len };
    let mut p = RPacket {
        version: 0,
        traffic_class: r.u8(),
        flow_id: r.u32() & 0xfffff,
        next_hdr: *r.pick(&[17u8, 202, 6, 200, 0]),
        hdr_len_units: 0,
        payload_len: 0,
        path_type,
        dt,
        dl: 0,
        st,
        sl: 0,
        rsv: 0,
        dst_ia: r.u64(),
        src_ia: r.u64(),
        dst_host: dst,
        src_host: src,
        path,
        payload: r.bytes(payload_len),
        trailing: 0,
    };
    p.fix_lengths();
    let bytes = p.encode();
    let must_pass = src_kind == 0 && path_kind <= 4;
    Built { bytes, must_pass, family: if must_pass { "valid" } else { "built-invalid" } }
}

fn judge(m: &mut Mon, hook: &IngressHook, datagram: &[u8], peer: IpAddr, local: IpAddr, must_pass: bool, family: &'static str, info: serde_json::Value) {
    m.eval();
    let rec = Recorder::default();
    let replay = json!({"case": info, "family": family, "peer": peer.to_string(), "local": local.to_string(), "datagram": hex(&datagram[..datagram.len().min(400)]), "datagram_len": datagram.len()});
    let decision = match catch(|| hook.decide(datagram, peer, local, &rec)) {
        Err(p) => {
            m.violation(format!("panic:ingress:{}", p.site()), p.0, replay);
            return;
        }
        Ok(d) => d,
    };
    let calls = rec.calls.lock().unwrap().clone();
    judge_decision(m, decision, calls, datagram, peer, must_pass, family, replay, "");
}

/// judges one observed decision (from the hook wrapper or from the live gateway)
#[allow(clippy::too_many_arguments)]
fn judge_decision(m: &mut Mon, decision: IngressDecision, calls: Vec<Vec<u8>>, datagram: &[u8], peer: IpAddr, must_pass: bool, family: &'static str, replay: serde_json::Value, via: &'static str) {
    let pos = positional(datagram);
    let refdec = RPacket::decode(datagram);
    match decision {
        IngressDecision::Dispatched => {
            m.count(&format!("{via}dispatched"));
            m.shape(&("dispatched", family, pos.as_ref().map(|p| p.path_type), datagram.len().min(3)));
            if calls.len() != 1 {
                m.violation("dispatch-count", format!("{} dispatch calls for one accepted datagram", calls.len()), replay.clone());
            }
            let Some(pos) = pos else {
                m.violation("dispatched:too-short-for-an-address-header", "dispatched a datagram that does not hold a source address", replay);
                return;
            };
            match pos.src_is_ip {
                None => m.violation("dispatched:source-host-is-not-an-ip-address", "source address type/length nibbles do not denote IPv4/IPv6", replay.clone()),
                Some(ip) if ip != peer => m.violation("dispatched:source-differs-from-peer", format!("source host {ip} is not the tunnel peer {peer}"), replay.clone()),
                _ => {}
            }
            if pos.path_type > 1 {
                m.violation("dispatched:unsupported-path-type", format!("path type {}", pos.path_type), replay.clone());
            }
            match &refdec {
                // sciparse's packet view deliberately admits a payload shorter than PayloadLen
                // ("the payload may be truncated"); the header must be complete and consistent
                Err(refscion::wire::RErr::Short("payload")) => {
                    m.count(&format!("{via}dispatched_with_truncated_payload"));
                    if calls.first().map(|c| c.len()) != Some(datagram.len()) {
                        m.violation("dispatched:different-extent", "truncated-payload packet not dispatched in full", replay.clone());
                    }
                }
                Err(e) => m.violation("dispatched:not-a-scion-packet", format!("reference decoder: {e:?}"), replay.clone()),
                Ok(p) => {
                    if let Some(c) = calls.first()
                        && c.len() != datagram.len() - p.trailing
                    {
                        m.violation("dispatched:different-extent", format!("dispatched {} bytes of a {}-byte packet", c.len(), datagram.len() - p.trailing), replay.clone());
                    }
                    if let Some(c) = calls.first()
                        && !datagram.starts_with(c)
                    {
                        m.violation("dispatched:different-bytes", "dispatched bytes are not the datagram", replay.clone());
                    }
                }
            }
        }
        IngressDecision::ScmpReply(reply) => {
            m.count(&format!("{via}refused"));
            m.count(&format!("{via}scmp_replies"));
            if must_pass {
                m.violation("valid-packet-refused", "a valid packet from the peer over a standard/empty path was refused", replay.clone());
            }
            if !calls.is_empty() {
                m.violation("refused-but-dispatched", "datagram answered with SCMP and dispatched", replay.clone());
            }
            if reply.len() > BUF {
                m.violation("scmp-reply-exceeds-buffer", format!("{} bytes", reply.len()), replay.clone());
            }
            match RPacket::decode(&reply) {
                Err(e) => m.violation("scmp-reply-unparseable", format!("{e:?}"), replay.clone()),
                Ok(p) => {
                    let scmp = RScmp::decode(&p.payload);
                    let ok_type = p.next_hdr == 202 && scmp.as_ref().map(|s| s.typ) == Some(4);
                    if !ok_type {
                        m.violation("scmp-reply-not-parameter-problem", format!("next_hdr {} type {:?}", p.next_hdr, scmp.as_ref().map(|s| s.typ)), replay.clone());
                    }
                    if p.dst_host != ip_bytes(peer) || p.dt != 0 {
                        m.violation("scmp-reply-not-addressed-to-peer", format!("dst host {}", hex(&p.dst_host)), replay.clone());
                    }
                    if p.path != RPath::Empty {
                        m.violation("scmp-reply-has-path", "reply carries a path", replay.clone());
                    }
                    if let Some(s) = scmp {
                        let mut zeroed = p.payload.clone();
                        zeroed[2] = 0;
                        zeroed[3] = 0;
                        if p.l4_checksum_over(&zeroed, 202) != s.checksum {
                            m.violation("scmp-reply-checksum", "checksum of the reply is wrong", replay.clone());
                        }
                        if s.body.len() >= 4 && !datagram.starts_with(&s.body[4..]) {
                            m.violation("scmp-reply-quote", "quoted bytes are not a prefix of the offending datagram", replay.clone());
                        }
                        m.shape(&("scmp", s.code, family, pos.as_ref().map(|p| (p.path_type.min(6), p.src_is_ip.is_some())), refdec.is_ok()));
                    }
                }
            }
        }
        IngressDecision::NoReply => {
            m.count(&format!("{via}refused"));
            m.count(&format!("{via}no_reply"));
            m.shape(&("noreply", family, datagram.len() > 8000));
            if must_pass {
                m.violation("valid-packet-refused", "a valid packet from the peer over a standard/empty path was refused", replay.clone());
            }
            if !calls.is_empty() {
                m.violation("refused-but-dispatched", "datagram refused and dispatched", replay.clone());
            }
        }
    }
}

pub fn run(args: &Args, mon: &mut Mon) -> (String, Vec<&'static str>) {
    mon.floor("dispatched", 500);
    mon.floor("refused", 2000);
    mon.floor("scmp_replies", 1000);
    let thorough = args.thorough();
    let scale = args.param_u64("scale", 1);
    let seed = args.seed;
    let n: u64 = if thorough { 400_000 * scale } else { 30_000 * scale };
    par_run(mon, args.threads, n, |i, m| {
        if !args.mine(i) {
            return;
        }
        let hook = IngressHook::new();
        let mut r = Rng::fork(seed, 0x0800_0000 + i);
        let peer = random_ip(&mut r);
        let local = random_ip(&mut r);
        let b = build(&mut r, peer);
        let info = json!({"seed": seed, "index": i});
        judge(m, &hook, &b.bytes, peer, local, b.must_pass, b.family, info.clone());
        // single-field mutations of the built packet
        match i % 8 {
            0 => {
                // every value of the DT/DL/ST/SL byte
                for v in 0..=255u8 {
                    let mut d = b.bytes.clone();
                    d[9] = v;
                    judge(m, &hook, &d, peer, local, false, "addr-type-byte", info.clone());
                }
            }
            1 => {
                for v in 0..=255u8 {
                    let mut d = b.bytes.clone();
                    d[8] = v;
                    judge(m, &hook, &d, peer, local, false, "path-type-byte", info.clone());
                }
            }
            2 => {
                // header length / payload length / version fields
                for (off, vals) in [(5usize, vec![0u8, 1, 9, 255]), (6, vec![0, 0xff]), (7, vec![0, 1, 0xff]), (0, vec![0x10, 0xf0])] {
                    for v in vals {
                        let mut d = b.bytes.clone();
                        d[off] = v;
                        judge(m, &hook, &d, peer, local, false, "length-fields", info.clone());
                    }
                    let mut d = b.bytes.clone();
                    d[off] = d[off].wrapping_add(1);
                    judge(m, &hook, &d, peer, local, false, "length-fields", info.clone());
                    let mut d = b.bytes.clone();
                    d[off] = d[off].wrapping_sub(1);
                    judge(m, &hook, &d, peer, local, false, "length-fields", info.clone());
                }
            }
            3 => {
                // truncations
                let hl = (b.bytes[5] as usize * 4).min(b.bytes.len());
                for cut in (0..hl.min(120)).chain([hl, hl.saturating_sub(1), b.bytes.len().saturating_sub(1)]) {
                    judge(m, &hook, &b.bytes[..cut.min(b.bytes.len())], peer, local, false, "truncated", info.clone());
                }
            }
            4 => {
                // bit flips in the header
                let hl = (b.bytes[5] as usize * 4).min(b.bytes.len());
                for _ in 0..40 {
                    let mut d = b.bytes.clone();
                    let bit = r.usize(hl * 8);
                    d[bit / 8] ^= 1 << (bit % 8);
                    judge(m, &hook, &d, peer, local, false, "header-bitflip", info.clone());
                }
            }
            5 => {
                // random bytes, boundary sizes
                for len in [0usize, 1, 11, 12, 27, 28, 36, 100, 1500, BUF - 1, BUF] {
                    let d = r.bytes(len);
                    judge(m, &hook, &d, peer, local, false, "random", info.clone());
                    let mut d2 = d.clone();
                    if d2.len() > 12 {
                        d2[0] &= 0x0f; // version 0
                        d2[8] &= 1;
                        d2[9] &= 0x33;
                    }
                    judge(m, &hook, &d2, peer, local, false, "random-headerish", info.clone());
                }
            }
            6 => {
                // trailing bytes, padded to the buffer size
                let mut d = b.bytes.clone();
                d.extend(r.bytes_upto(63));
                judge(m, &hook, &d, peer, local, false, "trailing", info.clone());
                let mut d = b.bytes.clone();
                d.resize(BUF, 0xEE);
                judge(m, &hook, &d, peer, local, false, "trailing", info.clone());
            }
            _ => {
                // same packet, other peers (incl. the mapped form of the peer)
                for p2 in [random_ip(&mut r), match peer {
                    IpAddr::V4(a) => IpAddr::V6(a.to_ipv6_mapped()),
                    IpAddr::V6(a) => a.to_ipv4_mapped().map(IpAddr::V4).unwrap_or(IpAddr::V6(a)),
                }] {
                    judge(m, &hook, &b.bytes, p2, local, b.must_pass && p2 == peer, "other-peer", info.clone());
                }
            }
        }
    });
    // ---- the same families through the live gateway (real start_server loop, real tunnel)
    let n_live: u64 = args.param_u64("live", if thorough { 8_000 } else { 1_500 });
    if n_live > 0 && !cfg!(miri) {
        mon.floor("live:dispatched", 50);
        mon.floor("live:scmp_replies", 200);
        let rt = tokio::runtime::Builder::new_multi_thread().worker_threads(2).enable_all().build().unwrap();
        let res: anyhow::Result<()> = rt.block_on(async {
            let mut live = crate::c08e2e::Live::start(seed).await?;
            let peer = live.peer_ip;
            let mut r = Rng::fork(seed, 0x08e2);
            for i in 0..n_live {
                // a fresh gateway and tunnel every 400 packets: a session stays well inside
                // WireGuard's 120 s rekey interval even under a sanitizer
                if i > 0 && i % 400 == 0 {
                    live = crate::c08e2e::Live::start(seed ^ i).await?;
                    mon.count("live:sessions");
                }
                let b = build(&mut r, peer);
                // the built packet and one mutation of it
                let mut variants: Vec<(Vec<u8>, bool, &'static str)> = vec![(b.bytes.clone(), b.must_pass, b.family)];
                let mut d = b.bytes.clone();
                match i % 4 {
                    0 => d[9] = r.u8(),
                    1 => d[8] = r.u8(),
                    2 => {
                        let hl = (d[5] as usize * 4).min(d.len());
                        let bit = r.usize(hl.max(1) * 8);
                        d[bit / 8] ^= 1 << (bit % 8);
                    }
                    _ => d.truncate(r.usize(d.len().max(1))),
                }
                variants.push((d, false, "live-mutated"));
                for (dg, must_pass, family) in variants {
                    if dg.is_empty() || dg.len() > BUF - 64 {
                        continue;
                    }
                    mon.eval();
                    let replay = json!({"case": {"seed": seed, "live_index": i}, "family": family, "peer": peer.to_string(), "via": "live gateway", "datagram": hex(&dg[..dg.len().min(400)]), "datagram_len": dg.len()});
                    match live.send(&dg).await? {
                        crate::c08e2e::Outcome::Dispatched(calls) => judge_decision(mon, IngressDecision::Dispatched, calls, &dg, peer, must_pass, family, replay, "live:"),
                        crate::c08e2e::Outcome::Replies(replies, calls) => {
                            if replies.len() > 1 {
                                mon.violation("more-than-one-scmp-reply", format!("{} packets came back for one refused datagram", replies.len()), replay.clone());
                            }
                            judge_decision(mon, IngressDecision::ScmpReply(replies[0].clone()), calls, &dg, peer, must_pass, family, replay, "live:")
                        }
                        crate::c08e2e::Outcome::Nothing => judge_decision(mon, IngressDecision::NoReply, vec![], &dg, peer, must_pass, family, replay, "live:"),
                    }
                }
            }
            Ok(())
        });
        if let Err(e) = res {
            mon.inconclusive(format!("live gateway run failed: {e:#}"));
        }
        rt.shutdown_timeout(Duration::from_secs(2));
    }
    mon.sample_labeled("families", || json!(["valid", "built-invalid (spoofed/unknown source types, one-hop/EPIC/unknown paths)", "addr-type-byte x256", "path-type-byte x256", "length-fields", "truncated", "header-bitflip", "random", "random-headerish", "trailing", "other-peer"]));
    (
        format!("{n} packets built by the reference encoder (source host = peer / one bit off / other family incl. v4-mapped / service / unused lengths 8 and 12 / unknown types / random; paths empty, standard, one-hop, EPIC, COLIBRI and unknown types; destinations of all types; payloads 0..9000 B) against peers v4, v6, v4-mapped, unspecified; each additionally mutated: all 256 values of the address type/length byte, all 256 path types, header/payload length and version fields, truncation at every header offset, header bit flips, random byte strings of boundary sizes up to 9216, trailing bytes, other peers. The gateway decision is taken through the verif-hooks wrapper around inbound_datagram_check / try_dispatch / create_scmp_error. distinct = (decision, family, path type, SCMP code, source kind) classes."),
        vec![
            "trusted: positional reading of the SCION common/address header and refscion's decoder, checksum and SCMP layout",
            "the decision is observed through snap-dataplane's verif-hooks wrapper, which repeats the Forwarded branch of TunnelGateway::start_server (same private functions, same pool buffer size); the WireGuard tunnel in front of it is not part of this check",
            "'parses as a SCION packet' is taken as: complete, self-consistent common/address/path header (reference decoder); a payload shorter than PayloadLen is admitted, as sciparse's packet view documents",
            "equality of source host and peer is address equality: an IPv4 source never equals a v4-mapped IPv6 peer (both directions are refused by the gateway, which the property allows)",
        ],
    )
}
