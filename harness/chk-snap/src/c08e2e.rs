//! C08, end to end: the same datagram families sent through a live tunnel gateway
//! (`start_tunnel_gateway` on a loopback UDP socket, a real WireGuard client in front of it), so
//! that the `Forwarded` branch of `TunnelGateway::start_server` itself is what decides. Observed:
//! calls of the `Dispatcher` we hand to the gateway, and the packets that come back through the
//! tunnel.

use std::{
    net::{IpAddr, SocketAddr},
    sync::{Arc, Mutex},
    time::Duration,
};

use ana_gotatun::{
    noise::{Tunn, TunnResult, rate_limiter::RateLimiter},
    packet::{Packet, WgKind},
    x25519,
};
use snap_dataplane::{
    dispatcher::Dispatcher,
    tunnel_gateway::{NoopTunnelGatewayObserver, dispatcher::TunnelGatewayDispatcher, metrics::TunnelGatewayDispatcherMetrics, start_tunnel_gateway},
};
use snap_tun::server::SnapTunAuthorization;
use tokio::net::UdpSocket;

#[derive(Default)]
pub struct SharedRecorder {
    pub calls: Mutex<Vec<Vec<u8>>>,
}

impl Dispatcher for SharedRecorder {
    fn try_dispatch(&self, packet: &sciparse::packet::view::ScionPacketView) {
        use sciparse::core::view::View;
        self.calls.lock().unwrap().push(packet.as_slice().to_vec());
    }
}

struct AllowAll;
impl SnapTunAuthorization for AllowAll {
    type SessionData = ();

    fn is_authorized(&self, _now: std::time::Instant, _identity: &[u8; 32]) -> Option<Arc<()>> {
        Some(Arc::new(()))
    }
}

fn kind_bytes(k: WgKind) -> Vec<u8> {
    match k {
        WgKind::HandshakeInit(p) => p.into_bytes()[..].to_vec(),
        WgKind::HandshakeResp(p) => p.into_bytes()[..].to_vec(),
        WgKind::CookieReply(p) => p.into_bytes()[..].to_vec(),
        WgKind::Data(p) => p.into_bytes()[..].to_vec(),
    }
}

pub enum Outcome {
    Dispatched(Vec<Vec<u8>>),
    /// plaintext packets that came back through the tunnel, and dispatcher calls seen next to them
    Replies(Vec<Vec<u8>>, Vec<Vec<u8>>),
    Nothing,
}

pub struct Live {
    client: UdpSocket,
    tunn: Tunn,
    server_addr: SocketAddr,
    pub recorder: Arc<SharedRecorder>,
    pub peer_ip: IpAddr,
    _tasks: scion_sdk_utils::task_handler::CancelTaskSet,
}

impl Live {
    pub async fn start(seed: u64) -> anyhow::Result<Live> {
        let server_socket = UdpSocket::bind("127.0.0.1:0").await?;
        let server_addr = server_socket.local_addr()?;
        let mut key = [7u8; 32];
        key[..8].copy_from_slice(&seed.to_le_bytes());
        let server_secret = x25519::StaticSecret::from(key);
        let server_pub = x25519::PublicKey::from(&server_secret);
        let recorder = Arc::new(SharedRecorder::default());
        let registry = scion_sdk_observability::metrics::registry::MetricsRegistry::new();
        let (_tun_dispatcher, tun_rx) = TunnelGatewayDispatcher::new(TunnelGatewayDispatcherMetrics::new(&registry));
        let mut tasks = scion_sdk_utils::task_handler::CancelTaskSet::new();
        start_tunnel_gateway(&mut tasks, server_socket, Arc::new(AllowAll), recorder.clone(), Arc::new(NoopTunnelGatewayObserver), tun_rx, server_secret);
        // keep the dispatcher's sender alive for the lifetime of the gateway
        std::mem::forget(_tun_dispatcher);
        let client = UdpSocket::bind("127.0.0.1:0").await?;
        let peer_ip = client.local_addr()?.ip();
        let mut ckey = [9u8; 32];
        ckey[..8].copy_from_slice(&seed.to_le_bytes());
        let tunn = Tunn::new(x25519::StaticSecret::from(ckey), server_pub, None, None, 1, Arc::new(RateLimiter::new(&server_pub, 1000)), server_addr);
        let mut live = Live { client, tunn, server_addr, recorder, peer_ip, _tasks: tasks };
        live.handshake().await?;
        Ok(live)
    }

    async fn recv_one(&self, wait: Duration) -> Option<Vec<u8>> {
        let mut buf = vec![0u8; 20000];
        match tokio::time::timeout(wait, self.client.recv_from(&mut buf)).await {
            Ok(Ok((n, _))) => {
                buf.truncate(n);
                Some(buf)
            }
            _ => None,
        }
    }

    async fn handshake(&mut self) -> anyhow::Result<()> {
        let Some(WgKind::HandshakeInit(init)) = self.tunn.handle_outgoing_packet(Packet::copy_from(&b"warm-up"[..])) else { anyhow::bail!("no handshake init") };
        self.client.send_to(&init.into_bytes()[..], self.server_addr).await?;
        let resp = self.recv_one(Duration::from_secs(5)).await.ok_or_else(|| anyhow::anyhow!("no handshake response from the gateway"))?;
        let kind = Packet::copy_from(&resp[..]).try_into_wg().map_err(|_| anyhow::anyhow!("unparseable handshake response"))?;
        if let TunnResult::WriteToNetwork(p) = self.tunn.handle_incoming_packet(kind) {
            self.client.send_to(&kind_bytes(p), self.server_addr).await?;
        }
        let queued: Vec<Vec<u8>> = self.tunn.get_queued_packets().map(kind_bytes).collect();
        for q in queued {
            self.client.send_to(&q, self.server_addr).await?;
        }
        // the warm-up payload is not a SCION packet: the gateway answers it with an SCMP error
        let _ = self.recv_one(Duration::from_millis(500)).await;
        self.recorder.calls.lock().unwrap().clear();
        Ok(())
    }

    /// sends one datagram through the tunnel and waits for what the gateway does with it
    pub async fn send(&mut self, datagram: &[u8]) -> anyhow::Result<Outcome> {
        let before = self.recorder.calls.lock().unwrap().len();
        let Some(out) = self.tunn.handle_outgoing_packet(Packet::copy_from(datagram)) else { anyhow::bail!("client tunnel produced nothing") };
        // sessions are kept far shorter than WireGuard's rekey interval; anything but a data packet
        // here means the client started a new handshake and the observation would be meaningless
        if !matches!(out, WgKind::Data(_)) {
            anyhow::bail!("client tunnel started a new handshake in the middle of a session");
        }
        self.client.send_to(&kind_bytes(out), self.server_addr).await?;
        let mut replies = vec![];
        // poll: a dispatch shows up in the recorder, a refusal comes back as a packet
        for round in 0..60 {
            if let Some(pkt) = self.recv_one(Duration::from_millis(if round == 0 { 2 } else { 5 })).await {
                if let Ok(kind) = Packet::copy_from(&pkt[..]).try_into_wg()
                    && let TunnResult::WriteToTunnel(plain) = self.tunn.handle_incoming_packet(kind)
                    && !plain.is_empty()
                {
                    replies.push(plain[..].to_vec());
                }
            }
            let calls = self.recorder.calls.lock().unwrap();
            if calls.len() > before || !replies.is_empty() {
                break;
            }
        }
        // a little longer for stragglers (a second reply or a dispatch next to a reply would be a fault)
        if let Some(pkt) = self.recv_one(Duration::from_millis(3)).await
            && let Ok(kind) = Packet::copy_from(&pkt[..]).try_into_wg()
            && let TunnResult::WriteToTunnel(plain) = self.tunn.handle_incoming_packet(kind)
            && !plain.is_empty()
        {
            replies.push(plain[..].to_vec());
        }
        let calls: Vec<Vec<u8>> = self.recorder.calls.lock().unwrap()[before..].to_vec();
        Ok(if !calls.is_empty() && replies.is_empty() {
            Outcome::Dispatched(calls)
        } else if !replies.is_empty() {
            Outcome::Replies(replies, calls)
        } else {
            Outcome::Nothing
        })
    }
}
