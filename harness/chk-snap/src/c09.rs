//! C09 — the SNAP tunnel carries traffic only for identities authorised at that moment.
//!
//! The real `SnapTunServer` runs over the real `IdentityRegistry` (wrapped only to shift the clock
//! by a virtual offset and to hand the authenticated identity out as session data). Real
//! WireGuard clients (ana-gotatun `Tunn`) with three static identities at two socket addresses
//! drive it. A reference model of the authorisation database (key -> identity, identity -> expiry)
//! is updated alongside; every observation at the boundary is judged against it:
//!   * `Forwarded` / outgoing `Some` only for an identity the model authorises at that instant,
//!   * the session handed out is the identity whose client encrypted the payload, the payload is
//!     what that client sent, from that client's address,
//!   * `has_authorization` agrees with the model for every identity after every event
//!     (one identity per key, one key per identity, expiry strictly after now),
//!   * an outgoing ciphertext decrypts only at the client holding that identity at that address.

use std::{
    collections::{BTreeMap, BTreeSet, VecDeque},
    net::SocketAddr,
    sync::{
        Arc,
        atomic::{AtomicU64, Ordering},
    },
    time::{Duration, Instant},
};

use ana_gotatun::{
    noise::{Tunn, TunnResult, rate_limiter::RateLimiter},
    packet::{Packet, WgKind},
    x25519,
};
use serde_json::json;
use snap_control::server::identity_registry::IdentityRegistry;
use snap_tun::server::{HandleIncomingPacketResult, SnapTunAuthorization, SnapTunServer};
use vmon::{Args, Mon, Rng, catch, par_run};

const N_KEYS: usize = 2;
const N_IDS: usize = 3;
const N_ADDRS: usize = 2;

struct VAuthz {
    reg: IdentityRegistry,
    off: AtomicU64,
}

impl VAuthz {
    fn vnow(&self) -> Instant {
        Instant::now() + Duration::from_secs(self.off.load(Ordering::SeqCst))
    }
}

impl SnapTunAuthorization for VAuthz {
    type SessionData = [u8; 32];

    fn is_authorized(&self, now: Instant, identity: &[u8; 32]) -> Option<Arc<[u8; 32]>> {
        let shifted = now + Duration::from_secs(self.off.load(Ordering::SeqCst));
        SnapTunAuthorization::is_authorized(&self.reg, shifted, identity).map(|_| Arc::new(*identity))
    }
}

#[derive(Default, Clone)]
struct Model {
    vtime: u64,
    assoc: BTreeMap<usize, usize>,
    sessions: BTreeMap<usize, u64>,
}

impl Model {
    fn authorized(&self, i: usize) -> bool {
        self.sessions.get(&i).map(|e| *e > self.vtime).unwrap_or(false)
    }

    /// returns "no registration existed before"
    fn register(&mut self, k: usize, i: usize, lifetime: u64) -> bool {
        let was_new = !self.sessions.contains_key(&i);
        if let Some(prev) = self.assoc.insert(k, i)
            && prev != i
        {
            self.sessions.remove(&prev);
        }
        self.assoc.retain(|kk, ii| *ii != i || *kk == k);
        self.sessions.insert(i, self.vtime + lifetime);
        was_new
    }

    fn purge(&mut self) {
        let expired: Vec<usize> = self.sessions.iter().filter(|(_, e)| **e <= self.vtime).map(|(i, _)| *i).collect();
        for i in expired {
            self.sessions.remove(&i);
            self.assoc.retain(|_, ii| *ii != i);
        }
    }
}

#[derive(Debug, Clone, Copy, PartialEq, Eq, Hash)]
enum Ev {
    Register { k: usize, i: usize, life: u64 },
    Advance(u64),
    Purge,
    /// client (a, i) sends a payload (a handshake first if it has no session)
    Send { a: usize, i: usize },
    /// what client (a, i) emits is delivered from the other address
    SendVia { a: usize, i: usize },
    /// one direction only: the client's packet reaches the server, the server's answers stay in
    /// flight
    SendHalf { a: usize, i: usize },
    /// the answers in flight reach client (a, i); what the client emits then reaches the server
    /// (whose answers stay in flight again)
    Deliver { a: usize, i: usize },
    Out { a: usize },
    Tick,
}

fn alphabet() -> Vec<Ev> {
    let mut v = vec![];
    for k in 0..N_KEYS {
        for i in 0..N_IDS {
            for life in [10u64, 30] {
                v.push(Ev::Register { k, i, life });
            }
        }
    }
    v.push(Ev::Advance(10));
    v.push(Ev::Advance(21));
    v.push(Ev::Purge);
    for a in 0..N_ADDRS {
        for i in 0..N_IDS {
            v.push(Ev::Send { a, i });
            v.push(Ev::SendVia { a, i });
            v.push(Ev::SendHalf { a, i });
            v.push(Ev::Deliver { a, i });
        }
    }
    for a in 0..N_ADDRS {
        v.push(Ev::Out { a });
    }
    v.push(Ev::Tick);
    v
}

fn kind_bytes(k: WgKind) -> Vec<u8> {
    match k {
        WgKind::HandshakeInit(p) => p.into_bytes()[..].to_vec(),
        WgKind::HandshakeResp(p) => p.into_bytes()[..].to_vec(),
        WgKind::CookieReply(p) => p.into_bytes()[..].to_vec(),
        WgKind::Data(p) => p.into_bytes()[..].to_vec(),
    }
}

struct World {
    server: SnapTunServer<VAuthz>,
    authz: Arc<VAuthz>,
    clients: BTreeMap<(usize, usize), Tunn>,
    sent: BTreeMap<(usize, usize), BTreeSet<Vec<u8>>>,
    /// server -> client packets not yet delivered
    inflight: BTreeMap<(usize, usize), Vec<(Vec<u8>, bool)>>,
    /// payloads handed to the server for encryption towards an address
    outbound_payloads: BTreeSet<Vec<u8>>,
    model: Model,
    secrets: Vec<x25519::StaticSecret>,
    pubs: Vec<[u8; 32]>,
    addrs: Vec<SocketAddr>,
    server_pub: x25519::PublicKey,
    server_addr: SocketAddr,
    rl: Arc<RateLimiter>,
    ctr: u64,
    pending: Vec<(String, String)>,
    forwarded: u64,
    outbound: u64,
    refused_in: u64,
    refused_out: u64,
}

impl World {
    fn new(seed: u64) -> World {
        let mut r = Rng::fork(seed, 0x0909);
        let mk = |r: &mut Rng| x25519::StaticSecret::from(<[u8; 32]>::try_from(r.bytes(32)).unwrap());
        let server_secret = mk(&mut r);
        let server_pub = x25519::PublicKey::from(&server_secret);
        let secrets: Vec<_> = (0..N_IDS).map(|_| mk(&mut r)).collect();
        let pubs = secrets.iter().map(|s| *x25519::PublicKey::from(s).as_bytes()).collect();
        let rl = Arc::new(RateLimiter::new(&server_pub, 10_000));
        let authz = Arc::new(VAuthz { reg: IdentityRegistry::new(), off: AtomicU64::new(0) });
        World {
            server: SnapTunServer::new(server_secret, rl.clone(), authz.clone()),
            authz,
            clients: BTreeMap::new(),
            sent: BTreeMap::new(),
            inflight: BTreeMap::new(),
            outbound_payloads: BTreeSet::new(),
            model: Model::default(),
            secrets,
            pubs,
            addrs: vec!["192.168.1.1:1234".parse().unwrap(), "[2001:db8::2]:4321".parse().unwrap()],
            server_pub,
            server_addr: "10.0.0.1:5001".parse().unwrap(),
            rl,
            ctr: 0,
            pending: vec![],
            forwarded: 0,
            outbound: 0,
            refused_in: 0,
            refused_out: 0,
        }
    }

    fn id_of(&self, p: &[u8; 32]) -> Option<usize> {
        self.pubs.iter().position(|x| x == p)
    }

    fn bad(&mut self, sig: impl Into<String>, detail: impl Into<String>) {
        self.pending.push((sig.into(), detail.into()));
    }

    fn client(&mut self, a: usize, i: usize) -> &mut Tunn {
        let (secrets, server_pub, rl, server_addr) = (&self.secrets, self.server_pub, &self.rl, self.server_addr);
        self.clients.entry((a, i)).or_insert_with(|| Tunn::new(secrets[i].clone(), server_pub, None, None, (a * 8 + i) as u32 + 1, rl.clone(), server_addr))
    }

    /// a packet from the server reaches client (a, i); returns what the client emits in response
    fn client_receives(&mut self, a: usize, i: usize, bytes: &[u8], authorised_when_emitted: bool) -> Vec<Vec<u8>> {
        let mut next = vec![];
        let Ok(kind) = Packet::copy_from(bytes).try_into_wg() else { return next };
        let r = self.client(a, i).handle_incoming_packet(kind);
        match r {
            TunnResult::WriteToNetwork(p) => next.push(kind_bytes(p)),
            TunnResult::WriteToTunnel(plain) if !plain.is_empty() => {
                // an outbound payload arrived at a client: it must be authorised right now
                if self.outbound_payloads.contains(&plain[..].to_vec()) && !authorised_when_emitted {
                    self.bad("outbound:payload-emitted-for-identity-not-authorised-then", format!("the server put an encrypted payload for identity {i} on the wire while that identity held no unexpired registration (observed at t={})", self.model.vtime));
                }
            }
            _ => {}
        }
        let queued: Vec<_> = self.client(a, i).get_queued_packets().map(kind_bytes).collect();
        next.extend(queued);
        next
    }

    /// one packet from client (a, i) reaches the server from address `from`; returns the server's
    /// answers
    fn server_receives(&mut self, a: usize, i: usize, from: SocketAddr, bytes: &[u8]) -> Vec<Vec<u8>> {
        let via_other = from != self.addrs[a];
        let mut q = VecDeque::new();
        let res = self.server.handle_incoming_packet_with_session(Packet::copy_from(bytes), from, &mut q);
        match res {
            HandleIncomingPacketResult::Forwarded { packet, session_data, .. } => {
                self.forwarded += 1;
                let sd = *session_data;
                match self.id_of(&sd) {
                    None => self.bad("forwarded:session-of-unknown-identity", "session data is not one of the registered identities"),
                    Some(j) => {
                        if !self.model.authorized(j) {
                            self.bad("forwarded:identity-not-authorised-now", format!("payload forwarded for identity {j} which holds no unexpired registration at t={}", self.model.vtime));
                        }
                        if j != i {
                            self.bad("forwarded:attributed-to-other-identity", format!("payload encrypted by identity {i} attributed to the session of identity {j}"));
                        }
                    }
                }
                if via_other {
                    self.bad("forwarded:from-another-address", "ciphertext of a client accepted from a different socket address");
                }
                if !self.sent.get(&(a, i)).map(|s| s.contains(&packet[..].to_vec())).unwrap_or(false) {
                    self.bad("forwarded:payload-not-sent", "forwarded payload differs from everything this client sent");
                }
            }
            HandleIncomingPacketResult::Result { result: TunnResult::WriteToNetwork(_) } => self.bad("incoming:write-to-network-returned", "handle_incoming_packet returned WriteToNetwork"),
            HandleIncomingPacketResult::Result { result: TunnResult::Err(_) } => self.refused_in += 1,
            HandleIncomingPacketResult::Result { .. } => {}
        }
        q.into_iter().map(kind_bytes).collect()
    }

    fn new_payload(&mut self, a: usize, i: usize) -> Vec<u8> {
        self.ctr += 1;
        let mut payload = format!("payload-a{a}-i{i}-n{}-", self.ctr).into_bytes();
        payload.resize(48 + (self.ctr as usize % 5) * 16, b'.');
        self.sent.entry((a, i)).or_default().insert(payload.clone());
        payload
    }

    fn send(&mut self, a: usize, i: usize, via_other: bool) {
        let payload = self.new_payload(a, i);
        let from = if via_other { self.addrs[(a + 1) % N_ADDRS] } else { self.addrs[a] };
        let mut to_server: Vec<Vec<u8>> = self.client(a, i).handle_outgoing_packet(Packet::copy_from(&payload[..])).into_iter().map(kind_bytes).collect();
        for _round in 0..4 {
            if to_server.is_empty() {
                break;
            }
            let mut next = vec![];
            for bytes in std::mem::take(&mut to_server) {
                let replies = self.server_receives(a, i, from, &bytes);
                if via_other {
                    // replies go to the other address; the replaying party has no keys
                    continue;
                }
                let auth = self.model.authorized(i);
                for reply in replies {
                    next.extend(self.client_receives(a, i, &reply, auth));
                }
            }
            to_server = next;
        }
    }

    fn send_half(&mut self, a: usize, i: usize) {
        let payload = self.new_payload(a, i);
        let from = self.addrs[a];
        let to_server: Vec<Vec<u8>> = self.client(a, i).handle_outgoing_packet(Packet::copy_from(&payload[..])).into_iter().map(kind_bytes).collect();
        for bytes in to_server {
            let replies = self.server_receives(a, i, from, &bytes);
            let auth = self.model.authorized(i);
            self.inflight.entry((a, i)).or_default().extend(replies.into_iter().map(|b| (b, auth)));
        }
    }

    fn deliver(&mut self, a: usize, i: usize) {
        let from = self.addrs[a];
        let pending = self.inflight.remove(&(a, i)).unwrap_or_default();
        let mut to_server = vec![];
        for (reply, auth) in pending {
            to_server.extend(self.client_receives(a, i, &reply, auth));
        }
        for bytes in to_server {
            let replies = self.server_receives(a, i, from, &bytes);
            let auth = self.model.authorized(i);
            self.inflight.entry((a, i)).or_default().extend(replies.into_iter().map(|b| (b, auth)));
        }
    }

    fn out(&mut self, a: usize) {
        self.ctr += 1;
        let mut payload = format!("outbound-a{a}-n{}-", self.ctr).into_bytes();
        payload.resize(64, b'+');
        self.outbound_payloads.insert(payload.clone());
        let Some(h) = self.server.handle_outgoing_packet_with_session(Packet::copy_from(&payload[..]), self.addrs[a]) else {
            self.refused_out += 1;
            return;
        };
        self.outbound += 1;
        let sd = *h.session_data;
        let Some(j) = self.id_of(&sd) else {
            self.bad("outbound:session-of-unknown-identity", "session data is not one of the registered identities");
            return;
        };
        if !self.model.authorized(j) {
            self.bad("outbound:identity-not-authorised-now", format!("payload encrypted towards identity {j} which holds no unexpired registration at t={}", self.model.vtime));
        }
        if let Some(WgKind::Data(p)) = h.network_packet {
            let bytes = p.into_bytes()[..].to_vec();
            for ((ca, ci), c) in self.clients.iter_mut() {
                let Ok(WgKind::Data(d)) = Packet::copy_from(&bytes[..]).try_into_wg() else { continue };
                let r = c.handle_incoming_packet(WgKind::Data(d));
                if let TunnResult::WriteToTunnel(plain) = r
                    && plain[..] == payload[..]
                    && (*ca != a || *ci != j)
                {
                    self.pending.push(("outbound:readable-by-another-client".into(), format!("payload for address {a} / identity {j} decrypts at client (address {ca}, identity {ci})")));
                }
            }
        }
    }

    fn apply(&mut self, ev: Ev) {
        match ev {
            Ev::Register { k, i, life } => {
                let was_new = self.authz.reg.register(self.authz.vnow(), format!("key{k}"), self.pubs[i], Duration::from_secs(life));
                let expect = self.model.register(k, i, life);
                if was_new != expect {
                    self.bad("register:return-value", format!("register returned {was_new}, model says {expect}"));
                }
            }
            Ev::Advance(dt) => {
                self.authz.off.fetch_add(dt, Ordering::SeqCst);
                self.model.vtime += dt;
            }
            Ev::Purge => {
                self.authz.reg.remove_expired(self.authz.vnow());
                self.model.purge();
            }
            Ev::Send { a, i } => self.send(a, i, false),
            Ev::SendVia { a, i } => self.send(a, i, true),
            Ev::SendHalf { a, i } => self.send_half(a, i),
            Ev::Deliver { a, i } => self.deliver(a, i),
            Ev::Out { a } => self.out(a),
            Ev::Tick => {
                let out: Vec<(SocketAddr, Vec<u8>)> = self.server.update_timers().into_iter().map(|(a, p)| (a, kind_bytes(p))).collect();
                for (addr, bytes) in out {
                    let at: Vec<(usize, usize)> = self.clients.keys().filter(|(ca, _)| self.addrs[*ca] == addr).cloned().collect();
                    for (ca, ci) in at {
                        let auth = self.model.authorized(ci);
                        let _ = self.client_receives(ca, ci, &bytes, auth);
                    }
                }
            }
        }
        for i in 0..N_IDS {
            let real = self.authz.reg.has_authorization(self.authz.vnow(), &self.pubs[i]);
            let want = self.model.authorized(i);
            if real != want {
                self.bad(
                    if real { "registry:authorised-without-valid-registration" } else { "registry:valid-registration-not-authorised" },
                    format!("identity {i}: has_authorization = {real}, model = {want} at t={} (model sessions {:?}, keys {:?})", self.model.vtime, self.model.sessions, self.model.assoc),
                );
            }
        }
    }
}

fn run_case(seed: u64, evs: &[Ev], m: &mut Mon, info: serde_json::Value) {
    m.eval();
    let t0 = Instant::now();
    let evs2 = evs.to_vec();
    let out = catch(move || {
        let mut w = World::new(seed);
        let mut first_bad_at = None;
        for (n, e) in evs2.iter().enumerate() {
            w.apply(*e);
            if first_bad_at.is_none() && !w.pending.is_empty() {
                first_bad_at = Some(n);
            }
        }
        (w.pending, w.forwarded, w.outbound, w.refused_in, w.refused_out, first_bad_at)
    });
    let replay = |extra: serde_json::Value| json!({"case": info, "events": evs.iter().map(|e| format!("{e:?}")).collect::<Vec<_>>(), "detail": extra});
    match out {
        Err(p) => m.violation(format!("panic:{}", p.site()), p.0, replay(json!(null))),
        Ok((pending, fwd, outb, rin, rout, first_bad_at)) => {
            if t0.elapsed() > Duration::from_millis(700) {
                // the registry reads the real clock; a case this slow could cross a one-second
                // boundary of the virtual clock arithmetic: no verdict
                m.count("slow_cases_not_judged");
                return;
            }
            m.count_n("forwarded", fwd);
            m.count_n("outbound_encrypted", outb);
            m.count_n("refused_inbound", rin);
            m.count_n("refused_outbound", rout);
            m.shape(&(fwd.min(3), outb.min(3), rin.min(3), rout.min(3), evs.len().min(6)));
            for (sig, detail) in pending {
                m.violation(sig, detail, replay(json!({"first_bad_event_index": first_bad_at})));
            }
        }
    }
}

pub fn run(args: &Args, mon: &mut Mon) -> (String, Vec<&'static str>) {
    mon.floor("forwarded", 500);
    mon.floor("outbound_encrypted", 200);
    mon.floor("refused_inbound", 500);
    mon.floor("refused_outbound", 200);
    let thorough = args.thorough();
    let scale = args.param_u64("scale", 1);
    let seed = args.seed;
    let alpha = alphabet();
    let n_alpha = alpha.len() as u64;

    // exhaustive: every sequence of `depth` events
    let depth: u32 = if thorough { 4 } else { 3 };
    let total = n_alpha.pow(depth);
    par_run(mon, args.threads, total, |idx, m| {
        if !args.mine(idx) {
            return;
        }
        let mut x = idx;
        let evs: Vec<Ev> = (0..depth)
            .map(|_| {
                let e = alpha[(x % n_alpha) as usize];
                x /= n_alpha;
                e
            })
            .collect();
        run_case(seed, &evs, m, json!({"exhaustive_index": idx, "depth": depth}));
        m.count("exhaustive_sequences");
    });

    // scenario-directed random walks
    let n_rand: u64 = if thorough { 300_000 * scale } else { 12_000 * scale };
    par_run(mon, args.threads, n_rand, |i, m| {
        if !args.mine(i) {
            return;
        }
        let mut r = Rng::fork(seed, 0x0900_0000 + i);
        let len = r.range(5, 40) as usize;
        let mut evs = vec![];
        // bias: a flow for one (address, identity) threaded through registry churn
        let (fa, fi) = (r.usize(N_ADDRS), r.usize(N_IDS));
        while evs.len() < len {
            let e = match r.below(13) {
                0 | 1 => Ev::Register { k: r.usize(N_KEYS), i: if r.bool() { fi } else { r.usize(N_IDS) }, life: *r.pick(&[10u64, 30]) },
                2 => Ev::Advance(*r.pick(&[10u64, 21, 9, 1])),
                3 => Ev::Purge,
                4 | 5 | 6 => Ev::Send { a: fa, i: fi },
                7 if r.bool() => Ev::Send { a: r.usize(N_ADDRS), i: r.usize(N_IDS) },
                7 => if r.bool() { Ev::SendHalf { a: fa, i: fi } } else { Ev::Deliver { a: fa, i: fi } },
                8 => Ev::SendVia { a: fa, i: fi },
                12 => if r.bool() { Ev::SendHalf { a: fa, i: fi } } else { Ev::Deliver { a: fa, i: fi } },
                9 | 10 => Ev::Out { a: if r.chance(3, 4) { fa } else { r.usize(N_ADDRS) } },
                _ => Ev::Tick,
            };
            evs.push(e);
        }
        run_case(seed ^ i, &evs, m, json!({"random_index": i}));
        m.count("random_walks");
    });
    mon.sample_labeled("alphabet", || json!(alphabet().iter().map(|e| format!("{e:?}")).collect::<Vec<_>>()));
    (
        format!("all {total} event sequences of length {depth} over the {n_alpha}-event alphabet {{register(2 keys x 3 identities x lifetimes 10/30 s), clock +10/+21 s, purge, send from (2 addresses x 3 identities) incl. handshake, one-directional send with the server's answers left in flight, delivery of the answers in flight, same ciphertext delivered from the other address, outbound payload to each address, timer tick}}, plus {n_rand} scenario-directed random walks of 5-40 events (one client flow threaded through registry churn, clock steps 1/9/10/21 s). Real SnapTunServer + real IdentityRegistry + real WireGuard clients; a reference model of the authorisation database judges every Forwarded / outgoing Some / has_authorization observation. distinct = (forwarded, encrypted, refused-in, refused-out, length) count classes."),
        vec![
            "trusted: the reference model of the authorisation database in chk-snap/src/c09.rs; ana-gotatun's WireGuard implementation for the clients",
            "virtual time: the registry is called with Instant::now() + offset; lifetimes and clock steps are whole seconds, a case slower than 0.7 s is not judged",
            "WireGuard timer expiry (tunnel removal after minutes of silence) is not reached: Tick runs update_timers without real time passing",
        ],
    )
}
