//! Checks of the SNAP control plane / tunnel / data plane (token verifier, identity registry,
//! tunnel server, ingress filter).
use vmon::{Args, Mon};

mod c08;
mod c08e2e;
mod c09;
mod c10;

fn main() {
    let args = Args::parse();
    let mut mon = Mon::new();
    let (rule, assumptions): (String, Vec<&'static str>) = match args.prop.as_str() {
        "C08" => c08::run(&args, &mut mon),
        "C09" => c09::run(&args, &mut mon),
        "C10" => c10::run(&args, &mut mon),
        other => panic!("chk-snap does not implement {other}"),
    };
    let code = mon.finish(&args, &rule, &assumptions);
    std::process::exit(code);
}
