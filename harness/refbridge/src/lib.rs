//! Glue between the independent reference model and the code under test's data types.
use refscion::topo::{self, GenParams, RSegment, RTopo, TopoRng};
use sciparse::{
    dataplane_path::standard::types::HopFieldMac,
    identifier::isd_asn::IsdAsn,
    segment::{AsEntry, HopEntry, PeerEntry, SegmentHopField, UnsignedPathSegment},
};
use vmon::Rng;

pub fn ia(topo: &RTopo, asx: usize) -> IsdAsn {
    IsdAsn::from_u64(topo.ases[asx].ia())
}

/// reference segment → sciparse segment (MACs are the reference's, i.e. spec-authentic)
pub fn to_sciparse_segment(topo: &RTopo, s: &RSegment) -> UnsignedPathSegment {
    let entries = s
        .entries
        .iter()
        .map(|e| AsEntry {
            local: ia(topo, e.as_idx),
            next: e.next_as.map(|n| ia(topo, n)).unwrap_or(IsdAsn::from_u64(0)),
            mtu: topo.ases[e.as_idx].mtu,
            hop_entry: HopEntry {
                ingress_mtu: e.ingress_mtu,
                hop_field: SegmentHopField { expiration_units: e.exp, cons_ingress: e.cons_in, cons_egress: e.cons_eg, mac: HopFieldMac(e.mac) },
            },
            peer_entries: e
                .peers
                .iter()
                .map(|p| PeerEntry {
                    peer: ia(topo, p.peer_as),
                    peer_interface: p.peer_if,
                    peer_mtu: p.peer_mtu,
                    hop_field: SegmentHopField { expiration_units: p.exp, cons_ingress: p.local_if, cons_egress: p.cons_eg, mac: HopFieldMac(p.mac) },
                })
                .collect(),
            extensions: vec![],
            unsigned_extensions: vec![],
        })
        .collect();
    UnsignedPathSegment::new(s.timestamp, s.seg_id, entries)
}

/// boundary-directed random topology parameters
pub fn gen_params(r: &mut Rng, size: u8) -> GenParams {
    match size {
        // tiny: 1 ISD, ≤2 cores, ≤3 non-core
        0 => GenParams {
            isds: 1,
            cores_per_isd: r.range(1, 2) as usize,
            noncore_per_isd: r.range(1, 3) as usize,
            extra_parent_pct: 40,
            parallel_link_pct: 20,
            peer_links: r.range(0, 2) as usize,
            extra_core_links_pct: 50,
            if_numbering: r.below(2) as u8,
        },
        1 => GenParams {
            isds: r.range(1, 2) as usize,
            cores_per_isd: r.range(1, 3) as usize,
            noncore_per_isd: r.range(2, 5) as usize,
            extra_parent_pct: 30,
            parallel_link_pct: 15,
            peer_links: r.range(0, 3) as usize,
            extra_core_links_pct: 40,
            if_numbering: r.below(2) as u8,
        },
        _ => GenParams {
            isds: r.range(2, 3) as usize,
            cores_per_isd: r.range(2, 4) as usize,
            noncore_per_isd: r.range(3, 8) as usize,
            extra_parent_pct: 25,
            parallel_link_pct: 10,
            peer_links: r.range(1, 5) as usize,
            extra_core_links_pct: 30,
            if_numbering: r.below(2) as u8,
        },
    }
}

pub fn gen_topology(r: &mut Rng, size: u8) -> (RTopo, GenParams) {
    let p = gen_params(r, size);
    let mut f = |n: u64| r.below(n);
    let t = topo::generate(&mut TopoRng(&mut f), &p);
    (t, p)
}

pub struct BeaconChoice {
    pub base_ts: u32,
    pub vary: bool,
}

/// beacon the whole topology with varied timestamps / SegIDs / expiry units
pub fn beacon(r: &mut Rng, t: &RTopo, max_len: usize, vary: bool, base_ts: u32, with_peers: bool) -> topo::Beaconing {
    let mut r1 = r.clone();
    let mut r2 = Rng::fork(r.u64(), 77);
    let mut params = move || -> (u32, u16) {
        if vary { (base_ts.wrapping_sub(r1.below(3600) as u32), r1.u16()) } else { (base_ts, 0) }
    };
    let mut exp = move || -> u8 {
        if vary { *r2.pick(&[0u8, 1, 63, 200, 255, 255, 255]) } else { 255 }
    };
    topo::beacon_all(t, max_len, &mut params, &mut exp, with_peers)
}
