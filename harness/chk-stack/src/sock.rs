//! Socket-level part of C14 (receive side) and C05 (send side).
//!
//! The real `UdpScionSocket<MultiPathManager>` assembled like `ScionStack::bind_with_config`
//! assembles it (hook `socket_over_channel`: in-memory underlay, the stack's `ScmpErrorHandler`
//! behind `DefaultEchoHandler`, the path manager registered as SCMP and send error receiver) with
//! the manager's real background task running.
//!
//! Receive side (C14): a random interleaving of UDP datagrams carrying unique ids, SCMP errors of
//! every kind, echo requests, other SCMP messages, malformed SCMP, packets of other protocols and
//! datagrams from non-IP hosts is injected while a consumer calls `recv_from` /
//! `recv_from_with_path` / `recv` (connected) with buffers of random size, some calls cancelled
//! while pending. A final sentinel datagram closes the history, so no verdict depends on a clock.
//!   * datagrams: delivered exactly once, in injection order, with the sender's address, the full
//!     length and an unaltered prefix; nothing else is delivered;
//!   * every injected SCMP error reaches every registered receiver exactly once, in order, with the
//!     message and the path of the packet that carried it;
//!   * the only packets the socket sends on its own are echo replies: exactly one per echo request,
//!     faithful (checked by the reference decoder); nothing answers any other packet.
//!
//! Send side (C05): `send_to` on the same socket; every packet that reaches the underlay is decoded
//! by the reference: addressed from the socket to the destination, payload and UDP header intact,
//! checksum valid, and its path is byte-for-byte the data plane path of a path the lookup returned
//! that satisfies the policy (monitor's own evaluation) and connects the requested ASes. With no
//! admissible path the send fails and nothing reaches the underlay. Underlay faults: `WouldBlock`
//! (exactly one packet once it clears), next hop unreachable / closed (error returned, nothing
//! sent).

use std::{
    net::{IpAddr, Ipv4Addr, Ipv6Addr},
    sync::{Arc, Mutex},
    time::{Duration, SystemTime},
};

use refscion::wire::{RPacket, RPath, RScmp, RUdp};
use scion_stack::{
    path::{
        fetcher::traits::{PathFetchError, PathFetcher},
        manager::{MultiPathManager, MultiPathManagerConfig},
    },
    stack::{
        scmp_handler::{DefaultEchoHandler, ScmpErrorReceiver},
        socket::verif_hooks::{SendFault, socket_over_channel, strategy_with_default_scorers},
    },
};
use sciparse::{
    address::ip_socket_addr::ScionSocketIpAddr,
    core::{encode::WireEncode, view::View},
    dataplane_path::model::DpPath,
    packet::model::ScionScmpPacket,
    dataplane_path::view::{ScionDpPathViewExt, ScionDpPathViewRef},
    identifier::isd_asn::IsdAsn,
    path::ScionPath,
    payload::scmp::model::ScmpErrorMessage,
};
use serde_json::json;
use vmon::{Args, Mon, Rng, hex, par_run};

use crate::{
    c14::{packet_with, scmp_bytes, std_path},
    world::{Pol, gen_pool_at},
};

#[derive(Clone)]
struct Fetch {
    paths: Arc<Mutex<Vec<ScionPath>>>,
    dst: IsdAsn,
    calls: Arc<Mutex<usize>>,
}

impl PathFetcher for Fetch {
    fn fetch_paths(&self, _src: IsdAsn, dst: IsdAsn) -> impl Future<Output = Result<Vec<ScionPath>, PathFetchError>> + Send + '_ {
        async move {
            *self.calls.lock().unwrap() += 1;
            tokio::task::yield_now().await;
            if dst == self.dst { Ok(self.paths.lock().unwrap().clone()) } else { Ok(vec![]) }
        }
    }
}

#[derive(Default)]
struct Recorder {
    got: Mutex<Vec<(ScmpErrorMessage, Vec<u8>)>>,
}

impl ScmpErrorReceiver for Recorder {
    fn report_scmp_error<'a>(&self, scmp_error: ScmpErrorMessage, path: ScionDpPathViewRef<'a>) {
        self.got.lock().unwrap().push((scmp_error, path.as_slice().to_vec()));
    }
}

/// what an injected packet must cause
#[derive(Debug, Clone)]
enum Expect {
    /// a datagram the application must get: (id, source, payload)
    Datagram { id: u64, src: ScionSocketIpAddr, payload: Vec<u8>, path: Vec<u8> },
    /// an SCMP error for the receivers: (message type, path bytes, whole SCMP payload)
    ScmpError { typ: u8, path: Vec<u8>, scmp: Vec<u8> },
    /// an echo request: exactly one reply
    Echo { rest: Vec<u8>, req: RPacket },
    /// nothing observable
    Nothing(&'static str),
}

fn ip_bytes(ip: IpAddr) -> Vec<u8> {
    match ip {
        IpAddr::V4(a) => a.octets().to_vec(),
        IpAddr::V6(a) => a.octets().to_vec(),
    }
}

pub struct SockResult {
    pub violations: Vec<(String, String, serde_json::Value)>,
    pub inconclusive: Option<String>,
    pub counters: Vec<(&'static str, u64)>,
    pub shapes: Vec<String>,
}

fn ia_u64(a: IsdAsn) -> u64 {
    a.to_u64()
}

async fn one_run(seed: u64, idx: u64, pool: &crate::world::Pool, recv_side: bool, send_side: bool) -> SockResult {
    let mut r = Rng::fork(seed, 0x1450_0000 + idx);
    let mut out = SockResult { violations: vec![], inconclusive: None, counters: vec![], shapes: vec![] };
    let info = json!({"seed": seed, "index": idx, "part": "socket"});
    macro_rules! viol {
        ($sig:expr, $detail:expr) => {
            out.violations.push(($sig.to_string(), $detail.to_string(), info.clone()))
        };
    }
    let mut cnt = |k: &'static str, n: u64| out.counters.push((k, n));

    // --- the world: lookup result, policy, manager, socket
    let all = pool.gens[0].clone();
    let pol = match r.below(6) {
        0 => Pol::None,
        1 => Pol::DenyAll,
        2 | 3 => {
            // an interface of some path: paths over it are refused
            let p = r.pick(&all);
            match crate::world::ifaces(p) {
                Some(v) if !v.is_empty() => {
                    let (a, i) = v[r.usize(v.len())];
                    Pol::DenyIface(a, i)
                }
                _ => Pol::None,
            }
        }
        4 => {
            let lens: Vec<usize> = all.iter().filter_map(|p| crate::world::ifaces(p).map(|v| v.len())).collect();
            Pol::MaxIfaces(*lens.iter().min().unwrap_or(&2))
        }
        _ => {
            let p = r.pick(&all);
            match crate::world::ifaces(p) {
                Some(v) if v.len() > 2 => Pol::DenyAs(v[1 + r.usize(v.len() - 2)].0),
                _ => Pol::None,
            }
        }
    };
    let strategy = strategy_with_default_scorers(pol.to_policies());
    // the lookup returns a random non-empty subset (or everything)
    let mut offered: Vec<ScionPath> = all.iter().filter(|_| r.chance(3, 4)).cloned().collect();
    if offered.is_empty() {
        offered = all.clone();
    }
    let fetch = Fetch { paths: Arc::new(Mutex::new(offered.clone())), dst: pool.dst, calls: Arc::new(Mutex::new(0)) };
    let mgr = Arc::new(MultiPathManager::new(MultiPathManagerConfig::default(), fetch.clone(), strategy).expect("default config"));
    let local_ip: IpAddr = if r.bool() { Ipv4Addr::new(10, 0, 0, 1).into() } else { Ipv6Addr::new(0x2001, 0xdb8, 0, 0, 0, 0, 0, 1).into() };
    let local = ScionSocketIpAddr::new(pool.src, local_ip, 40_000 + r.below(1000) as u16);
    let rec1 = Arc::new(Recorder::default());
    let rec2 = Arc::new(Recorder::default());
    let with_echo = r.chance(3, 4);
    let handlers: Vec<Box<dyn scion_stack::stack::scmp_handler::ScmpHandler>> = if with_echo { vec![Box::new(DefaultEchoHandler::new())] } else { vec![] };
    let (socket, h) = socket_over_channel(local, mgr.clone(), handlers, vec![rec1.clone(), rec2.clone()], Duration::from_secs(5));
    let remotes: Vec<ScionSocketIpAddr> = vec![
        ScionSocketIpAddr::new(pool.dst, Ipv4Addr::new(10, 1, 0, 7).into(), 5000),
        ScionSocketIpAddr::new(pool.dst, Ipv6Addr::new(0x2001, 0xdb8, 1, 0, 0, 0, 0, 9).into(), 5001),
        ScionSocketIpAddr::new(IsdAsn::from_u64(ia_u64(pool.dst) ^ 0x30), Ipv4Addr::new(192, 168, 7, 7).into(), 6000),
    ];
    let admissible: Vec<&ScionPath> = offered.iter().filter(|p| pol.allows(p) && p.src_ia() == pool.src && p.dst_ia() == pool.dst).collect();
    out.shapes.push(format!("pol:{}:admissible:{}", pol.label(), admissible.len().min(3)));

    // ------------------------------------------------------------------------------------------
    // send side
    if send_side {
        // in half of the runs datagrams arrive first, over paths no lookup returned: the socket
        // hands their reversed paths to the path manager (register_path); a sender must still only
        // ever get looked-up, admissible paths
        if r.bool() {
            let n = r.range(1, 4);
            let local_host = ip_bytes(local.ip());
            for k in 0..n {
                let from = remotes[r.usize(2)];
                let mut udp = vec![];
                udp.extend_from_slice(&from.port().to_be_bytes());
                udp.extend_from_slice(&local.port().to_be_bytes());
                udp.extend_from_slice(&16u16.to_be_bytes());
                udp.extend_from_slice(&[0, 0]);
                udp.extend_from_slice(&(0xABCD_0000u64 | k).to_be_bytes());
                let path = RPath::Standard(std_path(&mut r, true));
                let (_, b) = packet_with(ia_u64(from.isd_asn()), (0, ip_bytes(from.ip())), ia_u64(pool.src), (0, local_host.clone()), path, 17, udp, true, &mut r);
                if sciparse::packet::view::ScionRawPacketView::try_from_slice(&b).is_err() {
                    continue;
                }
                let _ = h.inject.send(b);
                let mut buf = [0u8; 64];
                let got = tokio::time::timeout(Duration::from_secs(20), async {
                    if r.bool() { socket.recv_from(&mut buf).await.map(|_| ()) } else { socket.recv_from_with_path(&mut buf).await.map(|_| ()) }
                })
                .await;
                if !matches!(got, Ok(Ok(()))) {
                    viol!("socket:receive-loop-stuck", "an injected datagram was not delivered within 20 s");
                    return out;
                }
                cnt("socket_foreign_paths_received_before_sending", 1);
            }
        }
        let n_sends = r.range(1, 8);
        for k in 0..n_sends {
            let dst_kind = r.below(8);
            let dest = match dst_kind {
                0 => ScionSocketIpAddr::new(pool.src, Ipv4Addr::new(10, 0, 0, 99).into(), 7000), // same AS
                1 => remotes[2],                                                                    // an AS the lookup knows no path to
                _ => remotes[r.usize(2)],
            };
            let payload = {
                let mut v = (0xC050_0000_0000u64 | (idx << 8) | k).to_be_bytes().to_vec();
                let cap = *r.pick(&[0usize, 16, 600, 1400]);
                v.extend(r.bytes_upto(cap));
                v
            };
            let fault = r.below(6);
            {
                let mut f = h.send_faults.lock().unwrap();
                f.clear();
                match fault {
                    0 => {
                        for _ in 0..r.range(1, 4) {
                            f.push_back(SendFault::WouldBlock);
                        }
                    }
                    1 => f.push_back(SendFault::NextHopUnreachable { isd_as: pool.src, interface_id: 1 }),
                    2 => f.push_back(SendFault::Closed),
                    _ => {}
                }
            }
            let before = h.sent.lock().unwrap().len();
            let res = tokio::time::timeout(Duration::from_secs(20), socket.send_to(&payload, dest)).await;
            let res = match res {
                Ok(x) => x,
                Err(_) => {
                    // the lookup is in-memory and instantaneous: a send that never returns is stuck
                    viol!("socket:send-never-returned", format!("send_to towards {dest} did not return within 20 s"));
                    break;
                }
            };
            let consumed_fault = h.send_faults.lock().unwrap().is_empty();
            let sent_now: Vec<Vec<u8>> = h.sent.lock().unwrap()[before..].to_vec();
            cnt("socket_sends", 1);
            let want_path: Option<Vec<Vec<u8>>> = match dst_kind {
                0 => Some(vec![vec![]]),
                1 => None,
                _ => {
                    if admissible.is_empty() {
                        None
                    } else {
                        Some(admissible.iter().map(|p| p.dp_path().as_slice().to_vec()).collect())
                    }
                }
            };
            out.shapes.push(format!("send:dst{}:fault{}:{}", dst_kind.min(2), fault.min(3), if res.is_ok() { "ok" } else { "err" }));
            match (&res, &want_path) {
                (Ok(()), None) => {
                    viol!("socket:send-succeeded-without-admissible-path", format!("send_to {dest} returned Ok although no looked-up path satisfies policy {}", pol.label()));
                }
                (Err(e), Some(_)) if fault > 2 || fault == 0 => {
                    viol!("socket:send-failed-although-path-known", format!("send_to {dest}: {e} (policy {}, {} admissible paths)", pol.label(), admissible.len()));
                }
                _ => {}
            }
            match &res {
                Err(_) => {
                    cnt("socket_sends_failed", 1);
                    if !sent_now.is_empty() {
                        viol!("socket:packet-sent-although-send-failed", format!("{} packets reached the underlay for a send_to that returned an error", sent_now.len()));
                    }
                }
                Ok(()) => {
                    cnt("socket_sends_ok", 1);
                    if (fault == 1 || fault == 2) && consumed_fault {
                        viol!("socket:underlay-error-swallowed", "the underlay refused the packet but send_to returned Ok");
                    }
                    if sent_now.len() != 1 {
                        viol!("socket:send-packet-count", format!("{} packets reached the underlay for one successful send_to", sent_now.len()));
                    }
                    for b in &sent_now {
                        let p = match RPacket::decode(b) {
                            Ok(p) => p,
                            Err(e) => {
                                viol!("socket:sent-packet-unparseable", format!("{e:?}"));
                                continue;
                            }
                        };
                        let dip = ip_bytes(dest.ip());
                        let sip = ip_bytes(local.ip());
                        if p.src_ia != ia_u64(pool.src) || p.src_host != sip || p.dst_ia != ia_u64(dest.isd_asn()) || p.dst_host != dip || p.st != 0 || p.dt != 0 {
                            viol!("socket:sent-packet-misaddressed", format!("from {:x}/{} to {:x}/{}", p.src_ia, hex(&p.src_host), p.dst_ia, hex(&p.dst_host)));
                        }
                        match RUdp::decode(&p.payload) {
                            Some(u) if p.next_hdr == 17 => {
                                if u.src_port != local.port() || u.dst_port != dest.port() || u.data != payload || u.length as usize != p.payload.len() {
                                    viol!("socket:sent-datagram-altered", format!("ports {}->{} length {} data {} bytes (wanted {} bytes)", u.src_port, u.dst_port, u.length, u.data.len(), payload.len()));
                                }
                                let mut z = p.payload.clone();
                                z[6] = 0;
                                z[7] = 0;
                                let ck = p.l4_checksum_over(&z, 17);
                                if ck != u.checksum && !(ck == 0 && u.checksum == 0xffff) {
                                    viol!("socket:sent-datagram-bad-checksum", format!("{:04x} vs {:04x}", u.checksum, ck));
                                }
                            }
                            _ => viol!("socket:sent-packet-not-udp", format!("next header {}", p.next_hdr)),
                        }
                        let hl = p.header_len();
                        let path_bytes = match &p.path {
                            RPath::Empty => vec![],
                            _ => b[28 + p.dst_host.len() + p.src_host.len()..hl].to_vec(),
                        };
                        match &want_path {
                            Some(w) if w.iter().any(|x| *x == path_bytes) => {
                                cnt("socket_sends_path_checked", 1);
                            }
                            Some(_) => {
                                // which rule does the path break?
                                let known = offered.iter().find(|q| q.dp_path().as_slice() == path_bytes.as_slice());
                                let sig = match known {
                                    Some(q) if !pol.allows(q) => "socket:sender-got-path-violating-policy",
                                    Some(_) => "socket:sender-got-path-for-other-pair",
                                    None => "socket:sender-got-path-from-no-lookup",
                                };
                                viol!(sig, format!("policy {}, path {}", pol.label(), hex(&path_bytes[..path_bytes.len().min(60)])));
                            }
                            None => {}
                        }
                    }
                }
            }
            if r.chance(1, 3) {
                tokio::task::yield_now().await;
            }
        }
    }

    // ------------------------------------------------------------------------------------------
    // receive side
    if recv_side {
        let sent_before = h.sent.lock().unwrap().len();
        let n_in = r.range(5, 90) as usize;
        let mut expects: Vec<Expect> = vec![];
        let mut wire: Vec<Vec<u8>> = vec![];
        let local_host = ip_bytes(local.ip());
        for k in 0..=n_in {
            let sentinel = k == n_in;
            let kind = if sentinel { 0 } else { r.below(16) };
            let from = *r.pick(&remotes);
            let path = if r.chance(1, 6) { RPath::Empty } else { RPath::Standard(std_path(&mut r, true)) };
            let path_bytes = match &path {
                RPath::Standard(sp) => sp.encode(),
                _ => vec![],
            };
            let (exp, bytes) = match kind {
                0..=6 => {
                    // a datagram with a unique id
                    let id = (idx << 16) | k as u64;
                    let mut data = id.to_be_bytes().to_vec();
                    let cap = *r.pick(&[0usize, 1, 100, 1200, 8000]);
                    data.extend(r.bytes_upto(cap));
                    let mut udp = vec![];
                    udp.extend_from_slice(&from.port().to_be_bytes());
                    udp.extend_from_slice(&local.port().to_be_bytes());
                    udp.extend_from_slice(&((data.len() + 8) as u16).to_be_bytes());
                    udp.extend_from_slice(&[0, 0]);
                    udp.extend_from_slice(&data);
                    let (_, b) = packet_with(ia_u64(from.isd_asn()), (0, ip_bytes(from.ip())), ia_u64(pool.src), (0, local_host.clone()), path, 17, udp, true, &mut r);
                    (Expect::Datagram { id, src: from, payload: data, path: path_bytes }, b)
                }
                7 => {
                    // a datagram whose source host is a service address: not deliverable
                    let mut udp = vec![0x13, 0x88, 0x9c, 0x40, 0, 16, 0, 0];
                    udp.extend(r.bytes(8));
                    let (_, b) = packet_with(ia_u64(from.isd_asn()), (1, vec![0, 1, 0, 0]), ia_u64(pool.src), (0, local_host.clone()), path, 17, udp, true, &mut r);
                    (Expect::Nothing("udp-from-service-address"), b)
                }
                8 => {
                    // too short for a UDP header
                    let n = r.usize(8);
                    let (_, b) = packet_with(ia_u64(from.isd_asn()), (0, ip_bytes(from.ip())), ia_u64(pool.src), (0, local_host.clone()), path, 17, r.bytes(n), false, &mut r);
                    (Expect::Nothing("udp-shorter-than-its-header"), b)
                }
                9 => {
                    let proto = *r.pick(&[6u8, 0, 200, 253, 255]);
                    let (_, b) = packet_with(ia_u64(from.isd_asn()), (0, ip_bytes(from.ip())), ia_u64(pool.src), (0, local_host.clone()), path, proto, r.bytes_upto(64), false, &mut r);
                    (Expect::Nothing("other-protocol"), b)
                }
                10..=12 => {
                    // an SCMP error of a defined kind quoting something
                    let (typ, info_len) = *r.pick(&[(1u8, 4usize), (2, 4), (4, 4), (5, 16), (6, 24)]);
                    let mut body = vec![0u8; info_len];
                    match typ {
                        2 | 4 => body[2..4].copy_from_slice(&r.u16().to_be_bytes()),
                        5 => {
                            body[..8].copy_from_slice(&ia_u64(pool.dst).to_be_bytes());
                            body[14..16].copy_from_slice(&r.u16().to_be_bytes());
                        }
                        6 => {
                            body[..8].copy_from_slice(&ia_u64(pool.dst).to_be_bytes());
                            body[14..16].copy_from_slice(&r.u16().to_be_bytes());
                            body[22..24].copy_from_slice(&r.u16().to_be_bytes());
                        }
                        _ => {}
                    }
                    body.extend(r.bytes_upto(300));
                    let code = match typ {
                        1 => *r.pick(&[0u8, 1, 3, 4]),
                        4 => *r.pick(&[0u8, 1, 16, 33]),
                        _ => 0,
                    };
                    let scmp = scmp_bytes(typ, code, &body);
                    let (p, b) = packet_with(ia_u64(from.isd_asn()), (0, ip_bytes(from.ip())), ia_u64(pool.src), (0, local_host.clone()), path, 202, scmp, true, &mut r);
                    (Expect::ScmpError { typ, path: path_bytes, scmp: p.payload.clone() }, b)
                }
                13 => {
                    let mut rest = r.bytes(4);
                    rest.extend(r.bytes_upto(200));
                    let (p, b) = packet_with(ia_u64(from.isd_asn()), (0, ip_bytes(from.ip())), ia_u64(pool.src), (0, local_host.clone()), path, 202, scmp_bytes(128, 0, &rest), true, &mut r);
                    if with_echo { (Expect::Echo { rest, req: p }, b) } else { (Expect::Nothing("echo-request-without-echo-handler"), b) }
                }
                14 => {
                    let t = *r.pick(&[129u8, 130, 131, 200, 255]);
                    let (_, b) = packet_with(ia_u64(from.isd_asn()), (0, ip_bytes(from.ip())), ia_u64(pool.src), (0, local_host.clone()), path, 202, scmp_bytes(t, 0, &r.bytes_upto(60)), true, &mut r);
                    (Expect::Nothing("scmp-informational-non-request"), b)
                }
                _ => {
                    // malformed: truncated SCMP, unknown error type
                    let scmp = match r.below(3) {
                        0 => {
                            let n = r.usize(4);
                            r.bytes(n)
                        }
                        1 => {
                            let n = r.usize(4);
                            scmp_bytes(*r.pick(&[1u8, 2, 4, 5, 6]), 0, &r.bytes(n))
                        }
                        _ => scmp_bytes(*r.pick(&[3u8, 7, 100, 127]), 0, &r.bytes_upto(40)),
                    };
                    let (_, b) = packet_with(ia_u64(from.isd_asn()), (0, ip_bytes(from.ip())), ia_u64(pool.src), (0, local_host.clone()), path, 202, scmp, true, &mut r);
                    (Expect::Nothing("scmp-malformed-or-unknown-error"), b)
                }
            };
            // the underlay contract: what it hands up decodes as a SCION packet
            if sciparse::packet::view::ScionRawPacketView::try_from_slice(&bytes).is_err() {
                if sentinel {
                    out.inconclusive = Some("the sentinel datagram does not decode".into());
                    return out;
                }
                continue;
            }
            // a retransmission: the very same packet once more (each copy is a received packet)
            if !sentinel && r.chance(1, 8) {
                expects.push(exp.clone());
                wire.push(bytes.clone());
            }
            expects.push(exp);
            wire.push(bytes);
        }

        // connected mode for a third of the runs (needs a path to the remote)
        let connected = !admissible.is_empty() && r.chance(1, 3);
        let socket = if connected {
            match tokio::time::timeout(Duration::from_secs(20), socket.connect(remotes[0])).await {
                Ok(Ok(s)) => s,
                Ok(Err(e)) => {
                    viol!("socket:connect-failed-although-path-known", format!("{e}"));
                    return out;
                }
                Err(_) => {
                    viol!("socket:connect-never-returned", "connect() towards an AS with an admissible path did not return in 20 s");
                    return out;
                }
            }
        } else {
            socket
        };

        // producer: injects in bursts with yields in between
        let inject = h.inject.clone();
        let mut pr = Rng::fork(seed ^ 0x9999, idx);
        let wire2 = wire.clone();
        let producer = tokio::spawn(async move {
            for b in wire2 {
                if pr.chance(1, 3) {
                    for _ in 0..pr.below(4) {
                        tokio::task::yield_now().await;
                    }
                }
                if inject.send(b).is_err() {
                    break;
                }
            }
        });

        // what the application must see
        let want: Vec<(u64, ScionSocketIpAddr, Vec<u8>, Vec<u8>)> = expects
            .iter()
            .filter_map(|e| match e {
                Expect::Datagram { id, src, payload, path } if !connected || *src == remotes[0] => Some((*id, *src, payload.clone(), path.clone())),
                _ => None,
            })
            .collect();
        // the sentinel is the last datagram; in connected mode it must come from the connected peer
        let sentinel_visible = matches!(expects.last(), Some(Expect::Datagram { src, .. }) if !connected || *src == remotes[0]);
        let mut got: Vec<(u64, Option<ScionSocketIpAddr>, usize, Vec<u8>, Option<Vec<u8>>)> = vec![];
        let sentinel_id = (idx << 16) | n_in as u64;
        let mut cancelled = 0u64;
        if !sentinel_visible {
            // append one more sentinel from the connected peer
            out.inconclusive = None;
        }
        let final_id = if sentinel_visible {
            sentinel_id
        } else {
            let id = (idx << 16) | 0xffff;
            let data = id.to_be_bytes().to_vec();
            let mut udp = vec![];
            udp.extend_from_slice(&remotes[0].port().to_be_bytes());
            udp.extend_from_slice(&local.port().to_be_bytes());
            udp.extend_from_slice(&16u16.to_be_bytes());
            udp.extend_from_slice(&[0, 0]);
            udp.extend_from_slice(&data);
            let (_, b) = packet_with(ia_u64(remotes[0].isd_asn()), (0, ip_bytes(remotes[0].ip())), ia_u64(pool.src), (0, local_host.clone()), RPath::Empty, 17, udp, true, &mut r);
            let _ = producer.await;
            let _ = h.inject.send(b);
            id
        };
        let mut want = want;
        if !sentinel_visible {
            want.push((final_id, remotes[0], final_id.to_be_bytes().to_vec(), vec![]));
        }
        let t0 = std::time::Instant::now();
        loop {
            let cap = *r.pick(&[4usize, 8, 64, 1500, 9000]);
            let mut buf = vec![0xEEu8; cap];
            // a connected socket is read with recv() only: recv_from* do not filter by peer
            let mode = if connected { 2 } else { r.below(2) };
            // cancel a quarter of the calls at their first suspension
            if r.chance(1, 4) {
                let cancelled_now = match mode {
                    0 => tokio::select! { biased; x = socket.recv_from(&mut buf) => Some(x.map(|(n, a)| (n, Some(a), None))), _ = tokio::task::yield_now() => None },
                    1 => tokio::select! { biased; x = socket.recv_from_with_path(&mut buf) => Some(x.map(|(n, a, p)| (n, Some(a), Some(p.dp_path().as_slice().to_vec())))), _ = tokio::task::yield_now() => None },
                    _ => tokio::select! { biased; x = socket.recv(&mut buf) => Some(x.map(|n| (n, None, None))), _ = tokio::task::yield_now() => None },
                };
                match cancelled_now {
                    None => {
                        cancelled += 1;
                        if t0.elapsed() > Duration::from_secs(30) {
                            viol!("socket:receive-loop-stuck", "the sentinel datagram was not delivered within 30 s of cancelled receive calls");
                            break;
                        }
                        continue;
                    }
                    Some(Ok((n, a, p))) => {
                        let id = if buf.len() >= 8 && n >= 8 { u64::from_be_bytes(buf[..8].try_into().unwrap()) } else { u64::MAX };
                        got.push((id, a, n, buf[..n.min(cap)].to_vec(), p));
                        if id == final_id || (cap < 8 && got.len() >= want.len()) {
                            break;
                        }
                        continue;
                    }
                    Some(Err(e)) => {
                        viol!("socket:receive-error", format!("{e}"));
                        break;
                    }
                }
            }
            let res = tokio::time::timeout(Duration::from_secs(30), async {
                match mode {
                    0 => socket.recv_from(&mut buf).await.map(|(n, a)| (n, Some(a), None)),
                    1 => socket.recv_from_with_path(&mut buf).await.map(|(n, a, p)| (n, Some(a), Some(p.dp_path().as_slice().to_vec()))),
                    _ => socket.recv(&mut buf).await.map(|n| (n, None, None)),
                }
            })
            .await;
            match res {
                Err(_) => {
                    viol!("socket:receive-loop-stuck", format!("a receive call did not return within 30 s although {} deliverable datagrams (the last one a sentinel) were injected and only {} delivered", want.len(), got.len()));
                    break;
                }
                Ok(Err(e)) => {
                    viol!("socket:receive-error", format!("{e}"));
                    break;
                }
                Ok(Ok((n, a, p))) => {
                    let id = if cap >= 8 && n >= 8 { u64::from_be_bytes(buf[..8].try_into().unwrap()) } else { u64::MAX };
                    got.push((id, a, n, buf[..n.min(cap)].to_vec(), p));
                    if id == final_id || (cap < 8 && got.len() >= want.len()) {
                        break;
                    }
                }
            }
        }
        cnt("socket_receive_calls_cancelled", cancelled);
        cnt("socket_datagrams_injected", want.len() as u64);
        cnt("socket_datagrams_delivered", got.len() as u64);
        // --- datagram oracle: exactly the wanted sequence
        if out.violations.is_empty() {
            if got.len() != want.len() {
                let lost = want.len() as i64 - got.len() as i64;
                viol!(if lost > 0 { "socket:datagram-lost" } else { "socket:datagram-duplicated-or-invented" }, format!("{} injected deliverable datagrams, {} delivered (connected: {connected})", want.len(), got.len()));
            } else {
                for (k, ((wid, wsrc, wpay, wpath), (gid, gsrc, glen, gbuf, gpath))) in want.iter().zip(got.iter()).enumerate() {
                    let short = gbuf.len() < 8;
                    if !short && gid != wid {
                        viol!("socket:datagram-out-of-order", format!("position {k}: wanted id {wid:x}, got {gid:x}"));
                        break;
                    }
                    if *glen != wpay.len() {
                        viol!("socket:datagram-length-wrong", format!("position {k}: payload has {} bytes, reported {glen}", wpay.len()));
                        break;
                    }
                    if !wpay.starts_with(gbuf) || gbuf.len() != wpay.len().min(gbuf.len()) {
                        viol!("socket:datagram-bytes-altered", format!("position {k}"));
                        break;
                    }
                    if let Some(a) = gsrc
                        && a != wsrc
                    {
                        viol!("socket:datagram-wrong-sender", format!("position {k}: {a} instead of {wsrc}"));
                        break;
                    }
                    if let Some(p) = gpath
                        && p != wpath
                    {
                        viol!("socket:datagram-wrong-path", format!("position {k}: returned path differs from the packet's path"));
                        break;
                    }
                }
            }
        }
        // --- SCMP errors: each receiver, exactly once, in order (only those before the sentinel
        //     are guaranteed to have been processed; all were injected before it)
        let want_err: Vec<(u8, Vec<u8>, Vec<u8>)> = expects
            .iter()
            .filter_map(|e| match e {
                Expect::ScmpError { typ, path, scmp } => Some((*typ, path.clone(), scmp.clone())),
                _ => None,
            })
            .collect();
        cnt("socket_scmp_errors_injected", want_err.len() as u64);
        if out.violations.is_empty() {
            for (name, rec) in [("receiver-1", &rec1), ("receiver-2", &rec2)] {
                let g = rec.got.lock().unwrap();
                if g.len() != want_err.len() {
                    viol!(if g.len() < want_err.len() { "socket:scmp-error-not-delivered" } else { "socket:scmp-error-delivered-twice" }, format!("{name}: {} errors injected, {} reported", want_err.len(), g.len()));
                    break;
                }
                for (k, ((typ, path, scmp), (msg, gpath))) in want_err.iter().zip(g.iter()).enumerate() {
                    // re-encode what the receiver got: it must be the SCMP message that was sent
                    let m: sciparse::payload::scmp::model::ScmpMessage = msg.clone().into();
                    let enc = ScionScmpPacket::new(remotes[0].scion_addr(), local.scion_addr(), DpPath::Empty, m).try_encode_to_vec().ok().and_then(|b| RPacket::decode(&b).ok()).map(|p| p.payload).unwrap_or_default();
                    let same = enc.len() == scmp.len() && enc.len() >= 4 && enc[..2] == scmp[..2] && enc[4..] == scmp[4..];
                    if !same {
                        viol!("socket:scmp-error-altered", format!("{name} position {k}: type {typ}; got {}", hex(&enc[..enc.len().min(40)])));
                        break;
                    }
                    if gpath != path {
                        viol!("socket:scmp-error-wrong-path", format!("{name} position {k}: the path handed to the receiver is not the packet's path"));
                        break;
                    }
                }
                cnt("socket_scmp_errors_delivered", g.len() as u64);
            }
        }
        // --- what the socket sent on its own
        let replies: Vec<Vec<u8>> = h.sent.lock().unwrap()[sent_before..].to_vec();
        let want_echo: Vec<(&Vec<u8>, &RPacket)> = expects
            .iter()
            .filter_map(|e| match e {
                Expect::Echo { rest, req } => Some((rest, req)),
                _ => None,
            })
            .collect();
        cnt("socket_echo_requests", want_echo.len() as u64);
        if out.violations.is_empty() {
            if replies.len() > want_echo.len() {
                viol!("socket:unsolicited-reply", format!("{} packets sent by the receive loop for {} echo requests ({} packets injected)", replies.len(), want_echo.len(), wire.len()));
            } else if replies.len() < want_echo.len() {
                viol!("socket:echo-request-not-answered", format!("{} replies for {} echo requests", replies.len(), want_echo.len()));
            } else {
                for (k, (b, (rest, req))) in replies.iter().zip(want_echo.iter()).enumerate() {
                    let Ok(p) = RPacket::decode(b) else {
                        viol!("socket:echo-reply-unparseable", format!("reply {k}"));
                        break;
                    };
                    let s = RScmp::decode(&p.payload);
                    if p.next_hdr != 202 || !s.as_ref().map(|s| s.typ == 129 && s.code == 0 && s.body == **rest).unwrap_or(false) {
                        viol!("socket:echo-reply-differs", format!("reply {k} does not mirror identifier, sequence number and data"));
                        break;
                    }
                    if p.dst_ia != req.src_ia || p.dst_host != req.src_host || p.src_ia != req.dst_ia || p.src_host != req.dst_host {
                        viol!("socket:echo-reply-not-addressed-back", format!("reply {k}"));
                        break;
                    }
                    let want_path = match &req.path {
                        RPath::Standard(sp) => sp.reversed().map(RPath::Standard),
                        o => Some(o.clone()),
                    };
                    if want_path.is_some() && Some(&p.path) != want_path.as_ref() {
                        viol!("socket:echo-reply-path-not-reversed", format!("reply {k}"));
                        break;
                    }
                    if let Some(s) = s {
                        let mut z = p.payload.clone();
                        z[2] = 0;
                        z[3] = 0;
                        if p.l4_checksum_over(&z, 202) != s.checksum {
                            viol!("socket:echo-reply-bad-checksum", format!("reply {k}"));
                            break;
                        }
                    }
                    cnt("socket_echo_replies", 1);
                }
            }
        }
        let kinds: std::collections::BTreeSet<String> = expects
            .iter()
            .map(|e| match e {
                Expect::Datagram { .. } => "dgram".to_string(),
                Expect::ScmpError { typ, .. } => format!("err{typ}"),
                Expect::Echo { .. } => "echo".into(),
                Expect::Nothing(l) => l.to_string(),
            })
            .collect();
        for k in kinds {
            out.shapes.push(format!("recv:{k}:connected={connected}"));
        }
        // adjacency of kinds (what followed what): interleavings seen
        for w in expects.windows(2) {
            let t = |e: &Expect| match e {
                Expect::Datagram { .. } => 'd',
                Expect::ScmpError { .. } => 'e',
                Expect::Echo { .. } => 'q',
                Expect::Nothing(_) => 'n',
            };
            out.shapes.push(format!("adj:{}{}", t(&w[0]), t(&w[1])));
        }
        let _ = SystemTime::now();
    }
    out
}

/// runs `n` socket scenarios and reports the class of violations that belongs to `prop`
pub fn run_part(args: &Args, mon: &mut Mon, n: u64) -> &'static str {
    let recv_side = args.prop == "C14";
    let send_side = args.prop == "C05";
    if recv_side {
        mon.floor("socket_datagrams_delivered", 2000);
        mon.floor("socket_scmp_errors_delivered", 300);
        mon.floor("socket_echo_replies", 50);
        mon.floor("socket_receive_calls_cancelled", 100);
    }
    if send_side {
        mon.floor("socket_sends_ok", 300);
        mon.floor("socket_sends_failed", 100);
        mon.floor("socket_sends_path_checked", 200);
        mon.floor("socket_foreign_paths_received_before_sending", 200);
    }
    let seed = args.seed;
    let real_now = SystemTime::now().duration_since(SystemTime::UNIX_EPOCH).unwrap().as_secs() as u32;
    let pools: Vec<_> = (0..40).filter_map(|k| gen_pool_at(seed, k, 1, 600, real_now, &[200u8, 255])).take(6).collect();
    if pools.is_empty() {
        mon.inconclusive("no path pool for the socket part");
        return "";
    }
    par_run(mon, args.threads.min(8), n, |i, m| {
        if !args.mine(i) {
            return;
        }
        let rt = tokio::runtime::Builder::new_current_thread().enable_all().build().unwrap();
        let pool = &pools[(i % pools.len() as u64) as usize];
        m.eval();
        let res = rt.block_on(one_run(seed, i, pool, recv_side, send_side));
        rt.shutdown_timeout(Duration::from_secs(5));
        m.count("socket_runs");
        for (k, v) in res.counters {
            m.count_n(k, v);
        }
        for s in res.shapes {
            m.shape(&s);
        }
        if let Some(why) = res.inconclusive {
            m.count("socket_runs_not_judged");
            if m.counter("socket_runs_not_judged") > 20 {
                m.inconclusive(why);
            }
            return;
        }
        for (sig, detail, replay) in res.violations {
            m.violation(sig, detail, replay);
        }
    });
    if recv_side {
        "socket part: the real UdpScionSocket<MultiPathManager> (assembled as ScionStack::bind_with_config does, over an in-memory underlay; DefaultEchoHandler in 3/4 of the runs + the stack's ScmpErrorHandler, two extra error receivers next to the path manager) receives 5-90 injected packets per run in random order (datagrams with unique ids from three senders incl. IPv6 and 0-8000 B payloads, datagrams from a service address, too-short UDP, other protocols, all five SCMP error kinds, echo requests, other informational SCMP, truncated / unknown-type SCMP; one packet in eight injected twice in a row), closed by a sentinel datagram; the consumer mixes recv_from / recv_from_with_path / recv (connected third of the runs) with 4-9000 B buffers and cancels a quarter of the calls at their first suspension. Judged: datagrams exactly once, in order, right sender / length / prefix / path; every error at every receiver exactly once, in order, same message and path; exactly one faithful echo reply per request and no other packet sent."
    } else {
        "socket part: send_to on the real UdpScionSocket<MultiPathManager> (in-memory underlay, real manager task, lookup returning a random subset of the pool, policies none / deny-all / deny-interface / deny-AS / max-length) towards the looked-up AS, the local AS and an AS without paths (in half of the runs after 1-3 datagrams arrived over paths no lookup returned, whose reversed paths the socket hands to the manager's register_path), with underlay faults (WouldBlock x1-3, next hop unreachable, closed): every packet reaching the underlay is decoded by the reference (addresses, ports, payload, UDP length and checksum) and its path must be byte-identical to the data plane path of a looked-up path that the monitor's own policy evaluation admits; a failed send leaves nothing on the underlay, a send without admissible path fails."
    }
}
