//! Event histories over the hand-stepped path manager world; one workload, three monitor sets.
//!
//! C05: policy honoured by every path handed to a sender.
//! C06: handed-out paths are live, state stays bounded, lookups are paced.
//! C07: reported link failures steer traffic away at once; unrelated reports change nothing.

use serde_json::json;
use vmon::{Args, Mon, Rng, catch, par_run};

use crate::world::{Ev, Pol, Pool, Verdicts, World, all_routes, gen_pool, ifaces, make_config, replay_json};

fn random_policy(r: &mut Rng, pool: &Pool, focus: &str) -> Pol {
    let all: Vec<_> = pool.gens[0].iter().filter_map(ifaces).collect();
    let pick_if = |r: &mut Rng| {
        let v = &all[r.usize(all.len())];
        v[r.usize(v.len())]
    };
    if focus != "C05" && r.chance(2, 3) {
        return Pol::None;
    }
    match r.below(6) {
        0 => Pol::None,
        1 | 2 => {
            // an AS in the middle of some path (never src/dst themselves when avoidable)
            let v = &all[r.usize(all.len())];
            let mids: Vec<_> = v.iter().filter(|(a, _)| *a != pool.src && *a != pool.dst).collect();
            if mids.is_empty() { Pol::DenyAs(pool.dst) } else { Pol::DenyAs(mids[r.usize(mids.len())].0) }
        }
        3 => {
            let (a, i) = pick_if(r);
            Pol::DenyIface(a, i)
        }
        4 => Pol::MaxIfaces(all.iter().map(|v| v.len()).min().unwrap_or(2) + 2 * r.usize(2)),
        _ => Pol::DenyAll,
    }
}

fn random_event(r: &mut Rng, pool: &Pool, focus: &str) -> Ev {
    let npaths = pool.gens[0].len() as u32;
    let full = if npaths >= 32 { u32::MAX } else { (1 << npaths) - 1 };
    let w = match focus {
        "C05" => [4, 1, 1, 3, 2, 1, 1, 0, 0, 7, 0, 0],
        "C06" => [3, 2, 3, 3, 3, 3, 1, 1, 1, 6, 1, 2],
        _ => [3, 1, 1, 3, 1, 1, 4, 2, 2, 6, 2, 3],
    };
    let total: u64 = w.iter().sum();
    let mut x = r.below(total);
    let mut k = 0;
    while x >= w[k] {
        x -= w[k];
        k += 1;
    }
    match k {
        0 => Ev::LookupOk {
            generation: r.usize(pool.gens.len()),
            mask: match r.below(4) {
                0 => full,
                1 => 1u32 << r.below(npaths.min(32) as u64),
                _ => r.u32() & full,
            },
            strip: if focus == "C05" && r.chance(1, 3) { r.u32() } else { 0 },
        },
        1 => Ev::LookupEmpty,
        2 => Ev::LookupErr,
        3 => Ev::Advance(*r.pick(&[0.5f64, 1.0, 1.0, 5.0, 9.0, 11.0, 29.0, 31.0, 61.0, 61.0, 100.0, 301.0, 1800.0, 7000.0])),
        4 => Ev::ToNextMaintain(*r.pick(&[0.0f64, 0.0, -0.5, 0.5, 2.0])),
        5 => Ev::ToActiveExpiry(*r.pick(&[-301.0f64, -61.0, -6.0, -1.0, 0.0, 1.0, 30.0, 200.0])),
        6 => Ev::IfaceDown { pos: r.usize(8), foreign: r.chance(1, 5) },
        7 => Ev::ConnDown { pos: r.usize(8) },
        8 => Ev::FirstHopDown { foreign: r.chance(1, 4) },
        10 => Ev::IfaceDownBurst { pos: r.usize(8) },
        11 => Ev::RepeatLast,
        _ => Ev::Send,
    }
}

pub fn run(args: &Args, mon: &mut Mon) -> (String, Vec<&'static str>) {
    let focus: &'static str = match args.prop.as_str() {
        "C05" => "C05",
        "C06" => "C06",
        _ => "C07",
    };
    let v = Verdicts { c05: focus == "C05", c06: focus == "C06", c07: focus == "C07" };
    mon.floor("sends_with_path", 1500);
    mon.floor("sends_without_path", 100);
    match focus {
        "C05" => {
            mon.floor("policy_cases", 300);
        }
        "C06" => {
            mon.floor("lookups_scheduled", 2000);
        }
        _ => {
            mon.floor("reports_with_alternative", 300);
            mon.floor("failovers", 100);
            mon.floor("foreign_reports", 100);
        }
    }
    let thorough = args.thorough();
    let scale = args.param_u64("scale", 1);
    let seed = args.seed;
    let n: u64 = if thorough { 20_000 * scale } else { 3_000 * scale };
    par_run(mon, args.threads, n, |i, m| {
        if !args.mine(i) {
            return;
        }
        let mut r = Rng::fork(seed, 0x0500_0000 + i);
        let Some(pool) = gen_pool(seed, i / 4, 3, *r.pick(&[600u32, 3600, 20000])) else {
            m.count("pools_without_two_paths");
            return;
        };
        let pol = random_policy(&mut r, &pool, focus);
        if !matches!(pol, Pol::None) {
            m.count("policy_cases");
        }
        let cfg = make_config(&mut r);
        let len = r.range(4, 40) as usize;
        // the worker's first lookup happens at start (Advance(0)); in 4 of 5 histories the lookup
        // service already has paths by then
        let evs: Vec<Ev> = std::iter::once(Ev::LookupOk { generation: 0, mask: u32::MAX, strip: 0 }).filter(|_| i % 5 != 0).chain(std::iter::once(Ev::Advance(0.0))).chain((0..len).map(|_| random_event(&mut r, &pool, focus))).collect();
        // C07: a directed family — an interface keeps being reported down for minutes, a lookup
        // then brings paths the cache has not seen (some over that interface), and the path in use
        // has to be replaced
        let evs: Vec<Ev> = if focus == "C07" && i % 4 == 3 {
            let np = pool.gens[0].len() as u32;
            let full = if np >= 32 { u32::MAX } else { (1 << np) - 1 };
            let mut e = vec![Ev::LookupOk { generation: 0, mask: (r.u32() | 1 | 1 << r.below(np.min(32) as u64)) & full, strip: 0 }, Ev::Advance(0.0), Ev::Send, Ev::IfaceDown { pos: r.usize(8), foreign: false }, Ev::Send];
            for _ in 0..r.range(2, 12) {
                e.push(Ev::Advance(*r.pick(&[11.0f64, 31.0, 61.0])));
                e.push(Ev::RepeatLast);
            }
            e.push(Ev::LookupOk { generation: r.usize(2), mask: full, strip: 0 });
            // the failure persists (and keeps being reported) right up to the next lookup
            e.push(Ev::RepeatUntilLookup { step: *r.pick(&[11.0f64, 31.0, 61.0]), max: 200 });
            e.push(Ev::Send);
            // replace the path in use: report its interfaces one by one
            for _ in 0..r.range(1, 4) {
                e.push(if r.bool() { Ev::IfaceDown { pos: r.usize(8), foreign: false } } else { Ev::ConnDown { pos: r.usize(8) } });
                e.push(Ev::Send);
            }
            e
        } else {
            evs
        };
        let info = json!({"seed": seed, "index": i, "routes": all_routes(&pool).len()});
        let rt = tokio::runtime::Builder::new_current_thread().enable_all().build().unwrap();
        m.eval();
        let out = catch(|| {
            let mut local = Mon::new();
            rt.block_on(async {
                let mut w = World::new(pool.clone(), pol.clone(), cfg);
                let info2 = info.clone();
                let rp = move |w: &World| replay_json(w, &info2);
                for e in &evs {
                    w.apply(e, &mut local, &v, &rp).await;
                    local.eval();
                }
                local.count_n("maintenance_steps", w.maint_steps);
            });
            local
        });
        if m.counter("histories_sampled") < 2 {
            m.count("histories_sampled");
            m.sample(|| json!({"policy": format!("{pol:?}"), "config": format!("{cfg:?}"), "routes": all_routes(&pool).len(), "events": evs.iter().take(14).map(|e| format!("{e:?}")).collect::<Vec<_>>()}));
        }
        match out {
            Ok(local) => m.merge(local),
            // the manager's own debug assertion on handing out an expired path (debug builds)
            // (C06's subject; a history of another property's run that trips it ends there)
            Err(p) if p.0.contains("Returned expired path") && focus != "C06" => m.count("histories_ended_by_the_expired_path_debug_assertion"),
            Err(p) if p.0.contains("Returned expired path") => m.violation("panic:crates/scion-stack/src/path/manager.rs:cached_path-debug-assert", p.0.clone(), json!({"case": info, "policy": format!("{pol:?}"), "events": evs.iter().map(|e| format!("{e:?}")).collect::<Vec<_>>()})),
            Err(p) => m.violation(format!("panic:{}", p.site()), p.0, json!({"case": info, "policy": format!("{pol:?}"), "events": evs.iter().map(|e| format!("{e:?}")).collect::<Vec<_>>()})),
        }
    });
    let sock_rule = if focus == "C05" { crate::sock::run_part(args, mon, if thorough { 8_000 * scale } else { 500 * scale }) } else { "" };
    let common = "real MultiPathManager + PathSet stepped through scion-stack's verif-hooks on a virtual clock (the harness plays the background task under ideal scheduling: maintenance exactly when due, issues handled when reported); scripted PathFetcher; paths from the real combinator over generated topologies in 3 generations (same routes re-beaconed later), hop expiry classes 337 s .. 24 h; configurations drawn from all validator-accepted combinations of cache size 1-50, refetch interval, minimum delay, expiry threshold, dedup window, swap threshold, issue memory 1-100, backoff";
    let rule = match focus {
        "C05" => format!("{n} histories of 4-40 events {{lookup returns subset/other generation/metadata-stripped paths, empty, error; clock steps 0.5 s..5.5 h, to next maintenance, around the active path's expiry; SCMP/first-hop reports; send}} with a policy attached (sciparse ACL deny-AS, closure policies deny-interface / max-length / deny-all, none): every path handed to a sender is re-evaluated against the policy by the monitor, must join the requested pair and be one some lookup returned; cache contents obey the policy after every step. {common}. distinct = (send outcome, cache size, last lookup class) classes. {sock_rule}"),
        "C06" => format!("{n} histories as above with adversarial timing (steps straddling expiry, threshold, refetch and backoff boundaries; failing and empty lookups): no expired path handed out; a sender is not refused while an unexpired path is cached; cache <= configured maximum; issue memory (map and queue) <= configured size; after every lookup the next one is scheduled within [minimum delay, max(refetch interval, backoff ceiling)]. {common}. distinct as above."),
        _ => format!("{n} histories as above biased to failure reports (external interface down at every egress position, internal connectivity down at every transit AS, first-hop send failure, reports naming foreign interfaces): if a valid cached path avoids the reported interface the next active path avoids it; no return to it within 30 s; a report matching no cached path changes neither the active path nor any score. {common}. distinct as above."),
    };
    (
        rule,
        vec![
            "the background task is emulated under ideal scheduling (zero latency between a timer falling due and maintenance); real-time task latency is not modelled",
            "trusted: the monitor's own reading of each policy over path metadata; path generation by refscion/refbridge + the real combinator (C04/C19 check it)",
            "'valid path known' means an unexpired path in the manager's cache; paths that only the lookup service knows are not 'known'",
        ],
    )
}
