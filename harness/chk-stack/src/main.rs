//! Checks of the scion-stack path manager (C05, C06, C07) on a hand-stepped path set.
use vmon::{Args, Mon};

mod c14;
mod c15txt;
mod c20;
mod histories;
mod sock;
mod world;

fn main() {
    let args = Args::parse();
    let mut mon = Mon::new();
    let (rule, assumptions): (String, Vec<&'static str>) = match args.prop.as_str() {
        "C20" => c20::run(&args, &mut mon),
        "C15" => c15txt::run(&args, &mut mon),
        "C14" => c14::run(&args, &mut mon),
        "C05" | "C06" | "C07" => histories::run(&args, &mut mon),
        other => panic!("chk-stack does not implement {other}"),
    };
    let code = mon.finish(&args, &rule, &assumptions);
    std::process::exit(code);
}
