//! C20 — waiting senders always wake; dropping the manager stops its workers.
//!
//! The real `MultiPathManager` with its real background tasks (public API only) under randomised
//! schedules: N concurrent `path()` / `cached_path()` callers for one pair, a scripted
//! `PathFetcher` whose lookups take a random number of scheduler yields / milliseconds and end
//! ok, empty or failed, interleaved with `stop_managing_paths`, idle expiry and dropping the
//! manager; on single- and multi-threaded runtimes. The monitor records the event order of every
//! run (lookup start/end, caller completions, stop, drop) and checks:
//!   * every caller completes (path or error) once no lookup is in flight (watchdog: generous
//!     wall clock; a still-running lookup makes the run inconclusive instead),
//!   * callers that arrive while the first lookup of a worker is pending all get that lookup's
//!     outcome; concurrent first requests cause exactly one lookup,
//!   * after the last manager handle is dropped no further lookup starts and the manager's state
//!     (fetcher included) is released.

use std::{
    sync::{
        Arc, Mutex,
        atomic::{AtomicBool, AtomicU64, AtomicUsize, Ordering},
    },
    time::{Duration, Instant, SystemTime},
};

use scion_stack::path::{
    PathStrategy,
    fetcher::traits::{PathFetchError, PathFetcher},
    manager::{MultiPathManager, MultiPathManagerConfig},
};
use sciparse::{identifier::isd_asn::IsdAsn, path::ScionPath};
use serde_json::json;
use vmon::{Args, Mon, Rng, par_run};

use crate::world::gen_pool_at;

#[derive(Clone, Copy, Debug, PartialEq)]
enum Outcome {
    Paths,
    Empty,
    Fail,
}

struct Script {
    outcome: Mutex<Outcome>,
    paths: Vec<ScionPath>,
    /// scheduler yields and milliseconds a lookup takes
    yields: AtomicUsize,
    millis: AtomicU64,
    started: AtomicUsize,
    finished: AtomicUsize,
    /// lookups whose future was dropped before completing (worker cancelled or aborted)
    cancelled: AtomicUsize,
    trace: Mutex<Vec<String>>,
    dropped: AtomicBool,
    started_after_drop: AtomicUsize,
    per_dst: Mutex<std::collections::BTreeMap<u64, usize>>,
}

#[derive(Clone)]
struct Fetch(Arc<Script>);

impl PathFetcher for Fetch {
    fn fetch_paths(&self, _src: IsdAsn, dst: IsdAsn) -> impl Future<Output = Result<Vec<ScionPath>, PathFetchError>> + Send + '_ {
        async move {
            let s = &self.0;
            s.started.fetch_add(1, Ordering::SeqCst);
            *s.per_dst.lock().unwrap().entry(dst.to_u64()).or_default() += 1;
            if s.dropped.load(Ordering::SeqCst) {
                s.started_after_drop.fetch_add(1, Ordering::SeqCst);
            }
            s.trace.lock().unwrap().push("lookup-start".into());
            struct Guard<'a>(&'a Script, bool);
            impl Drop for Guard<'_> {
                fn drop(&mut self) {
                    if !self.1 {
                        self.0.cancelled.fetch_add(1, Ordering::SeqCst);
                        self.0.trace.lock().unwrap().push("lookup-cancelled".into());
                    }
                }
            }
            let mut guard = Guard(s, false);
            for _ in 0..s.yields.load(Ordering::SeqCst) {
                tokio::task::yield_now().await;
            }
            let ms = s.millis.load(Ordering::SeqCst);
            if ms > 0 {
                tokio::time::sleep(Duration::from_millis(ms)).await;
            }
            let o = *s.outcome.lock().unwrap();
            s.trace.lock().unwrap().push(format!("lookup-end:{o:?}"));
            s.finished.fetch_add(1, Ordering::SeqCst);
            guard.1 = true;
            match o {
                Outcome::Paths => Ok(s.paths.clone()),
                Outcome::Empty => Ok(vec![]),
                Outcome::Fail => Err(PathFetchError::InternalError("lookup failed".into())),
            }
        }
    }
}

async fn jitter(r: &mut Rng) {
    match r.below(4) {
        0 => {}
        1 => tokio::task::yield_now().await,
        2 => {
            for _ in 0..r.below(6) {
                tokio::task::yield_now().await;
            }
        }
        _ => tokio::time::sleep(Duration::from_micros(r.below(1500))).await,
    }
}

struct RunResult {
    violations: Vec<(String, String)>,
    inconclusive: Option<String>,
    trace: Vec<String>,
    callers_ok: usize,
    callers_err: usize,
    lookups: usize,
}

async fn one_run(seed: u64, idx: u64, paths: Vec<ScionPath>, src: IsdAsn, dst: IsdAsn, watchdog: Duration) -> RunResult {
    let mut r = Rng::fork(seed, 0x2000_0000 + idx);
    let script = Arc::new(Script {
        outcome: Mutex::new(*r.pick(&[Outcome::Paths, Outcome::Paths, Outcome::Empty, Outcome::Fail])),
        paths,
        yields: AtomicUsize::new(r.usize(8)),
        millis: AtomicU64::new(*r.pick(&[0u64, 0, 1, 3, 10])),
        started: AtomicUsize::new(0),
        finished: AtomicUsize::new(0),
        cancelled: AtomicUsize::new(0),
        trace: Mutex::new(vec![]),
        dropped: AtomicBool::new(false),
        started_after_drop: AtomicUsize::new(0),
        per_dst: Mutex::new(Default::default()),
    });
    let scenario = r.below(5); // 0 plain, 1 stop during wait, 2 drop manager, 3 idle expiry, 4 failing retries
    // scenario 4 is judged on completed lookups, so a short wall-clock bound suffices
    let watchdog = if scenario == 4 { watchdog.min(Duration::from_secs(3)) } else { watchdog };
    if scenario == 4 {
        // lookups keep failing / coming back empty and are retried every few milliseconds; callers
        // keep arriving, some while a retry is in flight: each of them must be released
        *script.outcome.lock().unwrap() = *r.pick(&[Outcome::Empty, Outcome::Fail]);
        script.millis.store(*r.pick(&[2u64, 5, 10]), Ordering::SeqCst);
    }
    let cfg = MultiPathManagerConfig::default()
        .with_min_refetch_delay(Duration::from_millis(if scenario == 2 { 20 } else if scenario == 4 { 3 } else { 60_000 }))
        .with_refetch_interval(Duration::from_millis(if scenario == 2 { 20 } else if scenario == 4 { 3 } else { 3_600_000 }))
        .with_min_expiry_threshold(Duration::from_secs(60))
        .with_max_idle_period(Duration::from_millis(if scenario == 3 { 15 } else { 3_600_000 }));
    // retries after a failed lookup every 3-6 ms in scenario 4 (the backoff has no public setter)
    let cfg = if scenario == 4 { scion_stack::path::manager::verif_hooks::config_with(cfg, 100, 64, (0.003, 0.006, 1.5, 0.0)) } else { cfg };
    let mut strategy = PathStrategy::default();
    let _ = &mut strategy;
    let mgr = MultiPathManager::new(cfg, Fetch(script.clone()), strategy).expect("config");
    let now = SystemTime::now();
    let n_callers = r.range(1, 12) as usize;
    let first_outcome = *script.outcome.lock().unwrap();
    let mut violations = vec![];
    let mut handles = vec![];
    for c in 0..n_callers {
        let mgr = mgr.clone();
        let script = script.clone();
        let mut cr = Rng::fork(seed ^ idx, 0x77 + c as u64);
        handles.push(tokio::spawn(async move {
            jitter(&mut cr).await;
            if cr.chance(1, 4) {
                // the lock-free fast path first, as the socket does
                let _ = mgr.cached_path(src, dst, now);
                jitter(&mut cr).await;
            }
            let started_before = script.started.load(Ordering::SeqCst);
            let res = mgr.path(src, dst, now).await;
            script.trace.lock().unwrap().push(format!("caller-{}:{}", c, if res.is_ok() { "path" } else { "error" }));
            (res.is_ok(), started_before)
        }));
    }
    // the interleaved management action
    let mut dropped_at = None;
    match scenario {
        1 => {
            // in half of these runs the pair is cancelled while its (slow) first lookup is pending
            if r.bool() {
                script.millis.store(*r.pick(&[30u64, 60, 90]), Ordering::SeqCst);
                for _ in 0..200 {
                    if script.started.load(Ordering::SeqCst) > 0 {
                        break;
                    }
                    tokio::time::sleep(Duration::from_millis(1)).await;
                }
            }
            jitter(&mut r).await;
            mgr.stop_managing_paths(src, dst);
            script.trace.lock().unwrap().push("stop".into());
            // more manager traffic (other pairs come and go), then the same pair is asked for again
            let reads = *r.pick(&[0u64, 8, 24, 300, 800]);
            for k in 0..reads {
                // a handful of other pairs, asked for again and again (index reads and inserts)
                let other = IsdAsn::from_u64(dst.to_u64() ^ (0x100 + k % 6));
                let _ = mgr.cached_path(src, other, now);
                if r.bool() {
                    tokio::task::yield_now().await;
                }
                if r.chance(1, 40) {
                    mgr.stop_managing_paths(src, other);
                }
            }
            tokio::time::sleep(Duration::from_millis(r.below(20))).await;
            let mgr2 = mgr.clone();
            let script2 = script.clone();
            handles.push(tokio::spawn(async move {
                let res = mgr2.path(src, dst, now).await;
                script2.trace.lock().unwrap().push(format!("late-caller:{}", if res.is_ok() { "path" } else { "error" }));
                (res.is_ok(), 0)
            }));
        }
        3 => {
            // let the idle period pass while nobody asks, then ask again
            tokio::time::sleep(Duration::from_millis(r.range(10, 40))).await;
        }
        _ => {}
    }
    if scenario == 4 {
        // late callers: they arrive spread over ~60 ms, i.e. before, during and between retries
        let n_late = r.range(3, 10);
        for c in 0..n_late {
            tokio::time::sleep(Duration::from_micros(r.range(200, 9000))).await;
            let mgr = mgr.clone();
            let script = script.clone();
            handles.push(tokio::spawn(async move {
                let in_flight = script.started.load(Ordering::SeqCst) != script.finished.load(Ordering::SeqCst) + script.cancelled.load(Ordering::SeqCst);
                let res = mgr.path(src, dst, now).await;
                script.trace.lock().unwrap().push(format!("late-caller-{}:{}:{}", c, if in_flight { "during-retry" } else { "between-retries" }, if res.is_ok() { "path" } else { "error" }));
                (res.is_ok(), 0)
            }));
        }
    }
    // wait for the callers
    let t0 = Instant::now();
    let mut ok = 0;
    let mut err = 0;
    let mut inconclusive = None;
    for (c, h) in handles.into_iter().enumerate() {
        let left = watchdog.saturating_sub(t0.elapsed());
        match tokio::time::timeout(left, h).await {
            Ok(Ok((is_ok, _))) => {
                if is_ok {
                    ok += 1
                } else {
                    err += 1
                }
            }
            Ok(Err(e)) => violations.push(("panic:caller-task".into(), format!("caller {c}: {e}"))),
            Err(_) => {
                let in_flight = script.started.load(Ordering::SeqCst) != script.finished.load(Ordering::SeqCst) + script.cancelled.load(Ordering::SeqCst);
                if scenario == 4 && script.finished.load(Ordering::SeqCst) >= 20 {
                    // retries never stop in this scenario: judged on logical progress instead - the
                    // caller is still parked although many lookups have completed since it arrived
                    violations.push(("waiter-not-released:failing-retries".into(), format!("caller {c} still waits after {} lookups ended {first_outcome:?}-like (retry every few ms, {} s)", script.finished.load(Ordering::SeqCst), watchdog.as_secs())));
                } else if in_flight {
                    inconclusive = Some("watchdog fired while a lookup was still running".to_string());
                } else {
                    violations.push(("waiter-not-released".into(), format!("caller {c} of {n_callers} still waits {}s after the last lookup finished (scenario {scenario}, first lookup {first_outcome:?})", watchdog.as_secs())));
                }
                break;
            }
        }
    }
    let lookups_first_phase = script.started.load(Ordering::SeqCst);
    // outcome consistency: with one worker and one lookup, every caller sees that lookup's result
    if scenario == 0 && inconclusive.is_none() && violations.is_empty() {
        if lookups_first_phase != 1 {
            violations.push(("more-than-one-lookup-for-concurrent-first-requests".into(), format!("{n_callers} concurrent first requests caused {lookups_first_phase} lookups")));
        }
        let want_ok = first_outcome == Outcome::Paths;
        if (want_ok && err > 0) || (!want_ok && ok > 0) {
            violations.push(("caller-outcome-differs-from-lookup".into(), format!("lookup ended {first_outcome:?}; {ok} callers got a path, {err} an error")));
        }
    }
    if scenario == 0 && inconclusive.is_none() && violations.is_empty() {
        // truly simultaneous first requests: tasks released by one barrier ask for fresh pairs
        let n_par = 4;
        for d in 0..12u64 {
            let fresh = IsdAsn::from_u64(dst.to_u64() ^ (0x1_0000 + d));
            let barrier = Arc::new(tokio::sync::Barrier::new(n_par));
            let mut hs = vec![];
            for _ in 0..n_par {
                let (mgr, barrier) = (mgr.clone(), barrier.clone());
                hs.push(tokio::spawn(async move {
                    barrier.wait().await;
                    let _ = mgr.cached_path(src, fresh, now);
                }));
            }
            for h in hs {
                let _ = h.await;
            }
        }
        // let the workers' first lookups run
        for _ in 0..50 {
            if script.started.load(Ordering::SeqCst) == script.finished.load(Ordering::SeqCst) && script.per_dst.lock().unwrap().len() >= 13 {
                break;
            }
            tokio::time::sleep(Duration::from_millis(2)).await;
        }
        let worst = script.per_dst.lock().unwrap().iter().filter(|(k, _)| **k != dst.to_u64()).map(|(_, v)| *v).max().unwrap_or(0);
        if worst > 1 {
            violations.push(("more-than-one-lookup-for-concurrent-first-requests".into(), format!("{n_par} simultaneous first requests for one fresh pair caused {worst} lookups")));
        }
    }
    if scenario == 3 && inconclusive.is_none() && violations.is_empty() {
        // after the idle removal a new request must work again (new worker, new lookup)
        *script.outcome.lock().unwrap() = Outcome::Paths;
        tokio::time::sleep(Duration::from_millis(40)).await;
        match tokio::time::timeout(watchdog, mgr.path(src, dst, now)).await {
            Err(_) => violations.push(("waiter-not-released:after-idle-removal".into(), "a request after the idle removal of the pair never completed".into())),
            Ok(Err(e)) => {
                // allowed only while the old worker's error is still the pair's state
                script.trace.lock().unwrap().push(format!("after-idle:error:{e}"));
            }
            Ok(Ok(_)) => script.trace.lock().unwrap().push("after-idle:path".into()),
        }
    }
    if scenario == 2 {
        // drop every handle of the manager: workers must stop looking up and release everything
        script.dropped.store(true, Ordering::SeqCst);
        script.trace.lock().unwrap().push("drop".into());
        dropped_at = Some(Instant::now());
        drop(mgr);
        // workers refetch every 20 ms in this scenario; give them time to (wrongly) do so
        let mut released = false;
        for _ in 0..200 {
            tokio::time::sleep(Duration::from_millis(5)).await;
            if Arc::strong_count(&script) == 1 {
                released = true;
                break;
            }
        }
        let late = script.started_after_drop.load(Ordering::SeqCst);
        // a lookup may start in the instant between the flag and the drop itself: allow one
        if late > 1 {
            violations.push(("lookups-continue-after-drop".into(), format!("{late} lookups started after the manager was dropped")));
        }
        if !released {
            violations.push(("manager-state-not-released-after-drop".into(), format!("{} references to the fetcher remain 1 s after the last manager handle was dropped", Arc::strong_count(&script) - 1)));
        }
    } else {
        drop(mgr);
    }
    let _ = dropped_at;
    let trace = script.trace.lock().unwrap().clone();
    RunResult { violations, inconclusive, trace, callers_ok: ok, callers_err: err, lookups: script.started.load(Ordering::SeqCst) }
}

pub fn run(args: &Args, mon: &mut Mon) -> (String, Vec<&'static str>) {
    mon.floor("runs", 500);
    mon.floor("callers_released_with_path", 500);
    mon.floor("callers_released_with_error", 200);
    mon.floor("distinct_event_orders", 100);
    let thorough = args.thorough();
    let scale = args.param_u64("scale", 1);
    let seed = args.seed;
    let n: u64 = match args.param_u64("runs", 0) {
        0 => if thorough { 40_000 * scale } else { 2_000 * scale },
        runs => runs,
    };
    // the workers read the real clock: stamp the paths now, with day-long hop lifetimes
    let real_now = SystemTime::now().duration_since(SystemTime::UNIX_EPOCH).unwrap().as_secs() as u32;
    let pool = (0..50).find_map(|k| gen_pool_at(seed, k, 1, 600, real_now, &[200u8, 255])).expect("a pool");
    let paths = pool.gens[0].clone();
    let orders = Mutex::new(std::collections::BTreeSet::<u64>::new());
    // half of the worker threads drive single-threaded runtimes, half multi-threaded ones
    par_run(mon, args.threads.min(8), n, |i, m| {
        if !args.mine(i) {
            return;
        }
        let multi = i % 2 == 1;
        let rt = if multi { tokio::runtime::Builder::new_multi_thread().worker_threads(4).enable_all().build().unwrap() } else { tokio::runtime::Builder::new_current_thread().enable_all().build().unwrap() };
        m.eval();
        let res = rt.block_on(one_run(seed, i, paths.clone(), pool.src, pool.dst, Duration::from_secs(10)));
        // the runtime must also be able to shut down (no task left spinning)
        rt.shutdown_timeout(Duration::from_secs(5));
        m.count("runs");
        m.count(if multi { "runs_multi_thread" } else { "runs_current_thread" });
        m.count_n("callers_released_with_path", res.callers_ok as u64);
        m.count_n("callers_released_with_error", res.callers_err as u64);
        m.count_n("lookups", res.lookups as u64);
        let h = vmon::hash_of(&res.trace);
        if orders.lock().unwrap().insert(h) {
            m.count("distinct_event_orders");
        }
        m.shape(&(res.trace.iter().map(|t| t.split(':').next().unwrap_or("").chars().take(6).collect::<String>()).collect::<Vec<_>>(), multi));
        if i < 4 {
            m.sample(|| json!({"runtime": if multi { "multi-thread(3)" } else { "current-thread" }, "event_order": res.trace}));
        }
        if let Some(why) = res.inconclusive {
            m.count("runs_not_judged");
            if m.counter("runs_not_judged") > 20 {
                m.inconclusive(why);
            }
            return;
        }
        for (sig, detail) in res.violations {
            m.violation(sig, detail, json!({"seed": seed, "index": i, "multi_thread": multi, "event_order": res.trace}));
        }
    });
    (
        format!("{n} runs of the real MultiPathManager with its real worker tasks (public API, scripted PathFetcher whose lookups take 0-7 scheduler yields and 0-10 ms and end with paths / empty / error), half on current-thread, half on 4-worker multi-thread tokio runtimes: 1-11 concurrent callers of path() (a quarter trying cached_path() first) with random yields/sleeps before and between calls, in five scenarios: plain (followed by 12 rounds of 4 barrier-released simultaneous first requests for fresh pairs), stop_managing_paths during the wait followed by traffic for other pairs and a new request for the same pair, drop of the last manager handle (workers refetching every 20 ms), idle removal (15 ms idle period) followed by a new request, failing / empty lookups retried every 3-6 ms with 3-9 more callers arriving before, during and between the retries (each must be released; judged on completed lookups, not on the clock). The event order of every run is recorded; distinct = distinct event orders (lookup start/end, each caller's completion, stop, drop) seen."),
        vec![
            "a caller still pending 10 s after the last lookup finished on an otherwise idle runtime is reported as not released; if a lookup is still running at that point the run is not judged",
            "schedules are those the tokio runtimes produce under injected yields/sleeps; no exhaustive schedule enumeration (no loom/shuttle model of the crate's tasks)",
            "'exactly one worker' is observed as exactly one lookup for concurrent first requests of one pair",
        ],
    )
}
