//! C15 (DNS TXT part) — TXT address records round-trip, reject the rest, never panic.
//!
//! The record parser of scion-stack's `ScionTxtDnsResolver` is reached through the `verif-hooks`
//! wrapper `resolver::txt::verif_hooks::parse_txt_record`. Oracle: an independent parser of the
//! documented TSAR grammar (`scion=v1;` `[isd-as,host]` *( `,` `[isd-as,host]` ), optional blanks
//! around tokens as the crate documents); the ISD-AS and IP sub-parsers are the ones C15's main
//! check (chk-codec) and std cover, and are trusted here.

use std::{net::IpAddr, str::FromStr};

use scion_stack::resolver::txt::verif_hooks::parse_txt_record;
use sciparse::{address::ip_addr::ScionIpAddr, identifier::isd_asn::IsdAsn};
use serde_json::json;
use vmon::{Args, Mon, Rng, catch, par_run};

#[derive(Debug, PartialEq)]
enum Expect {
    /// not a SCION record: skipped
    NotScion,
    Accept(Vec<ScionIpAddr>),
    Reject(&'static str),
    Undecided(&'static str),
}

fn is_blank(c: char) -> bool {
    c == ' ' || c == '\t'
}

fn reference(record: &str) -> Expect {
    let Some(payload) = record.strip_prefix("scion=v1;") else { return Expect::NotScion };
    // blanks other than space / tab (the crate trims with Unicode rules): not decided here
    if payload.chars().any(|c| c.is_whitespace() && !is_blank(c)) {
        return Expect::Undecided("non-ASCII or line whitespace");
    }
    let mut rest = payload.trim_matches(is_blank);
    if rest.is_empty() {
        return Expect::Reject("empty address list");
    }
    let mut out = vec![];
    loop {
        let Some(r) = rest.strip_prefix('[') else { return Expect::Reject("entry does not start with '['") };
        let Some(close) = r.find(']') else { return Expect::Reject("missing ']'") };
        let entry = &r[..close];
        let Some((ia, host)) = entry.split_once(',') else { return Expect::Reject("entry without ','") };
        let (ia, host) = (ia.trim_matches(is_blank), host.trim_matches(is_blank));
        let Ok(ia) = IsdAsn::from_str(ia) else { return Expect::Reject("ISD-AS") };
        let Ok(ip) = IpAddr::from_str(host) else { return Expect::Reject("host") };
        out.push(ScionIpAddr::new(ia, ip));
        rest = r[close + 1..].trim_start_matches(is_blank);
        if rest.is_empty() {
            return Expect::Accept(out);
        }
        let Some(r) = rest.strip_prefix(',') else { return Expect::Reject("garbage after ']'") };
        rest = r.trim_start_matches(is_blank);
        if rest.is_empty() {
            return Expect::Reject("list ends with ','");
        }
    }
}

fn random_addr(r: &mut Rng) -> ScionIpAddr {
    let any_isd = r.below(65536);
    let isd = *r.pick(&[1u64, 19, 64, 65535, any_isd]);
    let asn = match r.below(4) {
        0 => 0xff00_0000_0110 + r.below(16),
        1 => r.below(1 << 32),
        2 => r.below(1 << 48),
        _ => (1 << 48) - 1,
    };
    let ia = IsdAsn::from_u64(isd << 48 | asn);
    let ip: IpAddr = if r.bool() { IpAddr::V4(r.u32().into()) } else { IpAddr::V6(<[u8; 16]>::try_from(r.bytes(16)).unwrap().into()) };
    ScionIpAddr::new(ia, ip)
}

fn blanks(r: &mut Rng, on: bool) -> &'static str {
    if !on {
        return "";
    }
    *r.pick(&["", "", " ", "  ", "\t"])
}

fn render(r: &mut Rng, addrs: &[ScionIpAddr], ws: bool) -> String {
    let mut s = String::from("scion=v1;");
    s.push_str(blanks(r, ws));
    for (i, a) in addrs.iter().enumerate() {
        if i > 0 {
            s.push_str(blanks(r, ws));
            s.push(',');
            s.push_str(blanks(r, ws));
        }
        s.push('[');
        s.push_str(blanks(r, ws));
        s.push_str(&a.isd_asn().to_string());
        s.push_str(blanks(r, ws));
        s.push(',');
        s.push_str(blanks(r, ws));
        s.push_str(&a.ip().to_string());
        s.push_str(blanks(r, ws));
        s.push(']');
    }
    s.push_str(blanks(r, ws));
    s
}

fn judge(record: &str, family: &'static str, m: &mut Mon) {
    m.eval();
    let want = reference(record);
    let replay = json!({"family": family, "record": record, "reference": format!("{want:?}")});
    let got = match catch(|| parse_txt_record(record)) {
        Err(p) => {
            m.violation(format!("panic:parse_txt_record:{}", p.site()), p.0, replay);
            return;
        }
        Ok(g) => g,
    };
    m.shape(&(family, match &want {
        Expect::NotScion => "not-scion",
        Expect::Accept(_) => "accept",
        Expect::Reject(why) => why,
        Expect::Undecided(why) => why,
    }));
    match (want, got) {
        (Expect::Undecided(_), _) => m.count("undecided"),
        (Expect::NotScion, None) => m.count("skipped_records"),
        (Expect::NotScion, Some(_)) => m.violation("txt:record-without-prefix-parsed", "a record without the scion=v1; prefix was treated as a SCION record", replay),
        (_, None) => m.violation("txt:scion-record-skipped", "a record with the prefix was skipped", replay),
        (Expect::Accept(w), Some(Ok(g))) => {
            m.count("accepted");
            if w != g {
                m.violation("txt:parsed-value-differs", format!("parsed {g:?}, expected {w:?}"), replay);
            }
        }
        (Expect::Accept(_), Some(Err(e))) => m.violation("txt:valid-record-rejected", e, replay),
        (Expect::Reject(_), Some(Err(_))) => m.count("rejected"),
        (Expect::Reject(why), Some(Ok(g))) => m.violation(format!("txt:accepted:{why}"), format!("accepted as {g:?}"), replay),
    }
}

pub fn run(args: &Args, mon: &mut Mon) -> (String, Vec<&'static str>) {
    mon.floor("accepted", 2000);
    mon.floor("rejected", 5000);
    mon.floor("skipped_records", 200);
    let thorough = args.thorough();
    let scale = args.param_u64("scale", 1);
    let seed = args.seed;
    let n: u64 = if thorough { 60_000 * scale } else { 4_000 * scale };
    let alphabet: Vec<char> = "[],;=: .-0f1Fv\t]x\u{a0}\u{e9}\n".chars().collect();
    par_run(mon, args.threads, n, |i, m| {
        if !args.mine(i) {
            return;
        }
        let mut r = Rng::fork(seed, 0x1500_0000 + i);
        let addrs: Vec<ScionIpAddr> = (0..r.range(1, 4)).map(|_| random_addr(&mut r)).collect();
        // round trip of the canonical form, and of the form with blanks
        let canon = render(&mut r, &addrs, false);
        judge(&canon, "canonical", m);
        match catch(|| parse_txt_record(&canon)) {
            Ok(Some(Ok(v))) if v == addrs => m.count("round_trips"),
            Ok(other) => m.violation("txt:round-trip", format!("{addrs:?} rendered as {canon:?} parsed as {other:?}"), json!({"record": canon})),
            Err(_) => {}
        }
        let spaced = render(&mut r, &addrs, true);
        judge(&spaced, "blanks", m);
        // every single-character deletion, and insertions / replacements at every position
        let chars: Vec<char> = canon.chars().collect();
        for pos in 0..chars.len() {
            let mut d = chars.clone();
            d.remove(pos);
            judge(&d.iter().collect::<String>(), "delete-char", m);
            let c = *r.pick(&alphabet);
            let mut ins = chars.clone();
            ins.insert(pos, c);
            judge(&ins.iter().collect::<String>(), "insert-char", m);
            let mut rep = chars.clone();
            rep[pos] = c;
            judge(&rep.iter().collect::<String>(), "replace-char", m);
        }
        // framing variants
        let body = &canon["scion=v1;".len()..];
        for v in [
            format!("scion=v1;{body},"),
            format!("scion=v1;{body}, "),
            format!("scion=v1;{body},,{body}"),
            format!("scion=v1;,{body}"),
            format!("scion=v1;{body}{body}"),
            format!("scion=v1;{body} {body}"),
            format!("scion=v1;{body}x"),
            format!("scion=v1;x{body}"),
            format!("scion=v1;{body}]"),
            format!("scion=v1;[{body}]"),
            format!("scion=v1;{}", body.replace('[', "").replace(']', "")),
            format!("scion=v1;{}", body.replace(',', ";")),
            "scion=v1;".to_string(),
            "scion=v1; ".to_string(),
            "scion=v1;[]".to_string(),
            "scion=v1;[,]".to_string(),
            format!("scion=v2;{body}"),
            format!("scion=v1{body}"),
            format!("SCION=v1;{body}"),
            format!(" scion=v1;{body}"),
            format!("scion =v1;{body}"),
            format!("scion=v1;;{body}"),
            format!("v=spf1 {body}"),
            body.to_string(),
            String::new(),
        ] {
            judge(&v, "framing", m);
        }
        // arbitrary strings
        for _ in 0..6 {
            let len = r.usize(40);
            let s: String = (0..len).map(|_| *r.pick(&alphabet)).collect();
            judge(&s, "random", m);
            judge(&format!("scion=v1;{s}"), "random-after-prefix", m);
        }
    });
    mon.sample_labeled("forms", || json!(["scion=v1;[19-ff00:0:110,192.0.2.1]", "scion=v1; [19-ff00:0:110 , 2001:db8::1] , [1-64512,10.0.0.1]"]));
    (
        format!("{n} random address lists (1-3 addresses, IPv4/IPv6, ISD 1..65535, BGP-style and full 48-bit AS numbers) rendered in the canonical form and with blanks at every position the crate allows: exact round trip; every single-character deletion and one insertion and replacement at every position (alphabet of separators, digits, letters, tab, NBSP, non-ASCII, newline); 25 framing variants (trailing / doubled / leading comma, missing or nested brackets, garbage before / after the list, empty list, other version or case of the prefix, leading blank, no prefix, foreign TXT records) and random strings with and without the prefix. Each string is judged by an independent parser of the documented grammar; the real parser must agree (skip / accept with equal value / reject) and never panic. distinct = (family, reference verdict/reason) pairs."),
        vec![
            "trusted: the reference framing parser in chk-stack/src/c15txt.rs; IsdAsn::from_str (C15's main check) and std's IpAddr::from_str as sub-parsers",
            "blanks are space and tab at the positions the crate documents; records containing other Unicode whitespace are generated (must not panic) but not judged",
            "the DNS lookup in front of the parser (hickory) is not driven",
        ],
    )
}
