//! A hand-stepped path manager world shared by C05, C06 and C07.
//!
//! The real `MultiPathManager` + `PathSet` run through scion-stack's `verif-hooks`
//! (`ManualPathSet`): no background task; the harness plays the task under ideal scheduling
//! (maintenance exactly when `next_maintain` says, issues handled as soon as they are reported)
//! on a virtual clock. A scripted `PathFetcher` returns whatever the history dictates. Paths come
//! from the real combinator over generated topologies (shared and disjoint interfaces, varying
//! lengths and expiries), optionally re-beaconed (same routes, later expiry) or stripped of
//! metadata.

use std::{
    collections::{BTreeMap, BTreeSet},
    sync::{
        Arc, Mutex,
        atomic::{AtomicU64, Ordering},
    },
    time::{Duration, SystemTime},
};

use refbridge::{gen_topology, ia, to_sciparse_segment};
use scion_stack::path::{
    fetcher::traits::{PathFetchError, PathFetcher},
    manager::{
        MultiPathManagerConfig,
        verif_hooks::{ConfigValues, ManualPathSet, config_values, config_with},
    },
    policy::PathPolicy,
};
use sciparse::{
    identifier::isd_asn::IsdAsn,
    path::{ScionPath, combinator::combine as real_combine, policy::acl::AclPolicy},
    payload::scmp::model::{ScmpErrorMessage, ScmpExternalInterfaceDown, ScmpInternalConnectivityDown},
    segment::UnsignedPathSegment,
};
use serde_json::json;
use vmon::{Mon, Rng};

pub const BASE_TS: u32 = 1_700_000_000;

pub fn at(secs: f64) -> SystemTime {
    // whole milliseconds: exact in f64 at this magnitude, so clock arithmetic cannot stall
    SystemTime::UNIX_EPOCH + Duration::from_millis((secs * 1000.0).round() as u64)
}

fn ceil_ms(d: Duration) -> f64 {
    (d.as_nanos().div_ceil(1_000_000)) as f64 / 1000.0
}

/// (AS, interface) list of a path, travel order
pub fn ifaces(p: &ScionPath) -> Option<Vec<(IsdAsn, u16)>> {
    // an inter-AS path whose metadata lists no interfaces cannot be evaluated either
    p.metadata()?.interfaces.as_ref().filter(|v| !v.is_empty()).map(|v| v.iter().map(|i| (i.interface.isd_asn, i.interface.id)).collect())
}

/// does the path run over the reported interface(s)?
pub fn path_uses(p: &ScionPath, conn: bool, hit: &[(IsdAsn, u16)]) -> bool {
    let Some(v) = ifaces(p) else { return false };
    if conn { v.windows(2).any(|w| w[0] == hit[0] && w[1] == hit[1]) } else { hit.iter().any(|h| v.contains(h)) }
}

pub fn route_key(p: &ScionPath) -> String {
    format!("{:#}", p.fingerprint())
}

#[derive(Clone)]
pub struct Pool {
    pub src: IsdAsn,
    pub dst: IsdAsn,
    /// generation → paths of that generation (same routes, timestamps shifted)
    pub gens: Vec<Vec<ScionPath>>,
    #[allow(dead_code)]
    pub gen_shift: u32,
}

/// Paths between one AS pair of a generated topology, in `n_gens` generations beaconed
/// `gen_shift` seconds apart (generation g is stamped g*gen_shift later).
pub fn gen_pool(seed: u64, idx: u64, n_gens: usize, gen_shift: u32) -> Option<Pool> {
    gen_pool_at(seed, idx, n_gens, gen_shift, BASE_TS, &[1u8, 2, 10, 63, 63, 200, 255, 255])
}

/// as `gen_pool`, stamped relative to `base_ts` with hop lifetimes drawn from `exps`
pub fn gen_pool_at(seed: u64, idx: u64, n_gens: usize, gen_shift: u32, base_ts: u32, exps: &'static [u8]) -> Option<Pool> {
    let mut r = Rng::fork(seed, 0x5700_0000 + idx);
    let size = (idx % 5 >= 2) as u8 + (idx % 5 >= 4) as u8;
    let (t, _gp) = gen_topology(&mut r, size);
    let n = t.ases.len();
    let bseed = r.u64();
    let mut best: Option<Pool> = None;
    let mut pairs: Vec<(usize, usize)> = (0..n).flat_map(|a| (0..n).map(move |b| (a, b))).filter(|(a, b)| a != b).collect();
    r.shuffle(&mut pairs);
    for (s, d) in pairs.into_iter().take(12) {
        let mut gens = vec![];
        for g in 0..n_gens {
            // the same beaconing randomness for every generation: same routes, shifted stamps
            let mut r1 = Rng::fork(bseed, 1);
            let mut r2 = Rng::fork(bseed, 2);
            let base = base_ts + g as u32 * gen_shift;
            let mut params = move || -> (u32, u16) { (base - r1.below(600) as u32, r1.u16()) };
            // hop lifetimes 675 s .. 24 h: expiry falls inside some histories, not at their start
            let mut exp = move || -> u8 { *r2.pick(exps) };
            let b = refscion::topo::beacon_all(&t, 5, &mut params, &mut exp, true);
            let cores: Vec<UnsignedPathSegment> = b.core_segments.iter().map(|x| to_sciparse_segment(&t, x)).collect();
            let non: Vec<UnsignedPathSegment> = b.noncore_segments.iter().filter(|x| x.last_as() == s || x.last_as() == d).map(|x| to_sciparse_segment(&t, x)).collect();
            gens.push(real_combine(ia(&t, s), ia(&t, d), cores, non));
        }
        if gens[0].len() >= 2 && best.as_ref().map(|b| b.gens[0].len() < gens[0].len()).unwrap_or(true) {
            best = Some(Pool { src: ia(&t, s), dst: ia(&t, d), gens, gen_shift });
        }
        if best.as_ref().map(|b| b.gens[0].len() >= 4).unwrap_or(false) {
            break;
        }
    }
    best
}

// ---------------------------------------------------------------------------------------------

#[derive(Default)]
pub struct FetchLog {
    pub response: Option<Result<Vec<ScionPath>, String>>,
    /// virtual time of every lookup
    pub calls: Vec<f64>,
    /// every path any successful lookup returned (before the manager's filter)
    pub returned: Vec<ScionPath>,
    /// result class of every lookup: 'o' paths, 'e' empty, 'x' error
    pub classes: Vec<char>,
}

pub struct ScriptFetcher {
    pub log: Mutex<FetchLog>,
    pub clock_ms: AtomicU64,
}

#[derive(Clone)]
pub struct Fetch(pub Arc<ScriptFetcher>);

impl PathFetcher for Fetch {
    fn fetch_paths(&self, _src: IsdAsn, _dst: IsdAsn) -> impl Future<Output = Result<Vec<ScionPath>, PathFetchError>> + Send + '_ {
        async move {
            let mut log = self.0.log.lock().unwrap();
            let now = self.0.clock_ms.load(Ordering::SeqCst) as f64 / 1000.0;
            log.calls.push(now);
            match log.response.clone().unwrap_or(Ok(vec![])) {
                Ok(p) => {
                    log.classes.push(if p.is_empty() { 'e' } else { 'o' });
                    log.returned.extend(p.iter().cloned());
                    Ok(p)
                }
                Err(e) => {
                    log.classes.push('x');
                    Err(PathFetchError::InternalError(e.into()))
                }
            }
        }
    }
}

/// the policy attached in a case, with an evaluation independent of the manager
#[derive(Clone, Debug)]
pub enum Pol {
    None,
    /// paths must not traverse this AS (sciparse ACL "- ia +"); needs metadata
    DenyAs(IsdAsn),
    /// paths must not use this (AS, interface) anywhere (closure policy over metadata)
    DenyIface(IsdAsn, u16),
    /// at most this many interfaces (closure)
    MaxIfaces(usize),
    /// nothing passes
    DenyAll,
}

struct FnPolicy(Box<dyn Fn(&ScionPath) -> bool + Send + Sync>);
impl PathPolicy for FnPolicy {
    fn predicate(&self, path: &ScionPath) -> bool {
        (self.0)(path)
    }
}

impl Pol {
    /// the monitor's own reading of the policy
    pub fn allows(&self, p: &ScionPath) -> bool {
        match self {
            Pol::None => true,
            Pol::DenyAll => false,
            Pol::DenyAs(a) => ifaces(p).map(|v| !v.iter().any(|(ia, _)| ia == a)).unwrap_or(false),
            Pol::DenyIface(a, i) => ifaces(p).map(|v| !v.iter().any(|(ia, id)| ia == a && id == i)).unwrap_or(false),
            Pol::MaxIfaces(n) => ifaces(p).map(|v| v.len() <= *n).unwrap_or(false),
        }
    }

    pub fn label(&self) -> &'static str {
        match self {
            Pol::None => "none",
            Pol::DenyAll => "deny-all",
            Pol::DenyAs(_) => "deny-as",
            Pol::DenyIface(..) => "deny-interface",
            Pol::MaxIfaces(_) => "max-interfaces",
        }
    }

    pub fn to_policies(&self) -> Vec<Arc<dyn PathPolicy>> {
        match self.clone() {
            Pol::None => vec![],
            Pol::DenyAll => vec![Arc::new(FnPolicy(Box::new(|_| false)))],
            Pol::DenyAs(a) => vec![Arc::new(AclPolicy::parse(&format!("- {a} +")).expect("acl"))],
            Pol::DenyIface(a, i) => vec![Arc::new(FnPolicy(Box::new(move |p| ifaces(p).map(|v| !v.iter().any(|(ia, id)| *ia == a && *id == i)).unwrap_or(false))))],
            Pol::MaxIfaces(n) => vec![Arc::new(FnPolicy(Box::new(move |p| ifaces(p).map(|v| v.len() <= n).unwrap_or(false))))],
        }
    }
}

#[derive(Clone, Debug)]
pub enum Ev {
    /// what lookups return from now on: generation + subset mask, metadata stripped from some
    LookupOk { generation: usize, mask: u32, strip: u32 },
    LookupEmpty,
    LookupErr,
    /// let virtual time pass (the emulated task runs every maintenance that falls due)
    Advance(f64),
    /// advance exactly to the next scheduled maintenance (+ delta)
    ToNextMaintain(f64),
    /// advance to delta seconds around the active path's expiry
    ToActiveExpiry(f64),
    /// SCMP external interface down for the k-th interface of the active path (or a foreign one)
    IfaceDown { pos: usize, foreign: bool },
    /// SCMP internal connectivity down for the k-th transit AS of the active path
    ConnDown { pos: usize },
    FirstHopDown { foreign: bool },
    /// two reports pending at one wake-up of the worker: one naming a foreign interface, then
    /// external-interface-down for the k-th egress interface of the active path
    IfaceDownBurst { pos: usize },
    /// the most recent report that hit the active path is reported again now
    RepeatLast,
    /// keep re-reporting it every `step` seconds until the worker has performed its next lookup
    RepeatUntilLookup { step: f64, max: usize },
    Send,
}

pub struct Verdicts {
    pub c05: bool,
    pub c06: bool,
    pub c07: bool,
}

pub struct World {
    pub mp: ManualPathSet<Fetch>,
    pub fetcher: Arc<ScriptFetcher>,
    pub now: f64,
    pub pool: Pool,
    pub pol: Pol,
    pub cfg: ConfigValues,
    pub dead: bool,
    pub history: Vec<String>,
    /// (time, target description, interfaces hit) of reports that hit the active path
    /// (time, report kind 0 = external interface / 1 = internal connectivity / 2 = first hop, interfaces)
    pub fresh: Vec<(f64, u8, Vec<(IsdAsn, u16)>, u64)>,
    /// reports made so far (the issue memory holds the last `issue_cache_size` distinct ones)
    pub n_reports: u64,
    pub last_hit: Option<(u8, Vec<(IsdAsn, u16)>)>,
    pub maint_steps: u64,
    pub last_maint: f64,
    /// time of the last maintenance round that performed a lookup (and thereby pruned the cache)
    pub last_refresh: f64,
    /// every report naming interfaces of a cached path: (time, internal-connectivity?, interfaces)
    pub reports: Vec<(f64, bool, Vec<(IsdAsn, u16)>)>,
}

pub fn make_config(r: &mut Rng) -> MultiPathManagerConfig {
    // all accepted configurations: min_refetch_delay <= refetch_interval and <= min_expiry_threshold
    let min_delay = *r.pick(&[1u64, 5, 60]);
    let interval = min_delay + *r.pick(&[0u64, 30, 100, 1800]);
    let threshold = min_delay + *r.pick(&[0u64, 5, 60, 300]);
    let c = MultiPathManagerConfig::default()
        .with_max_cached_paths_per_pair(*r.pick(&[1usize, 2, 3, 5, 50]))
        .with_refetch_interval(Duration::from_secs(interval))
        .with_min_refetch_delay(Duration::from_secs(min_delay))
        .with_min_expiry_threshold(Duration::from_secs(threshold))
        .with_max_idle_period(Duration::from_secs(*r.pick(&[120u64, 100_000])))
        .with_issue_deduplication_window(Duration::from_secs(*r.pick(&[0u64, 10, 60])))
        .with_path_swap_score_threshold(*r.pick(&[0.5f32, 0.5, 0.1, 0.9]));
    let bmin = *r.pick(&[1.0f32, 60.0]);
    config_with(c, *r.pick(&[1usize, 2, 4, 100]), *r.pick(&[2usize, 10, 64]), (bmin, bmin * *r.pick(&[1.0f32, 5.0, 20.0]), *r.pick(&[1.0f32, 1.5, 2.0]), *r.pick(&[0.0f32, 5.0])))
}

impl World {
    /// must run inside a tokio runtime
    pub fn new(pool: Pool, pol: Pol, config: MultiPathManagerConfig) -> World {
        let fetcher = Arc::new(ScriptFetcher { log: Mutex::new(FetchLog::default()), clock_ms: AtomicU64::new(0) });
        let now = BASE_TS as f64 + 10.0;
        fetcher.clock_ms.store((now * 1000.0) as u64, Ordering::SeqCst);
        let mp = ManualPathSet::new(at(now), pool.src, pool.dst, Fetch(fetcher.clone()), config, pol.to_policies()).expect("valid config");
        World { mp, fetcher, now, pool, pol, cfg: config_values(&config), dead: false, history: vec![], fresh: vec![], n_reports: 0, last_hit: None, maint_steps: 0, last_maint: 0.0, last_refresh: 0.0, reports: vec![] }
    }

    fn set_now(&mut self, t: f64) {
        let t = (t * 1000.0).round() / 1000.0;
        self.now = t;
        self.fetcher.clock_ms.store((t * 1000.0) as u64, Ordering::SeqCst);
    }

    /// play the background task up to `target`
    pub async fn run_task_until(&mut self, target: f64, m: &mut Mon, v: &Verdicts, replay: &dyn Fn(&World) -> serde_json::Value) {
        let mut guard = 0;
        while !self.dead {
            let wait = ceil_ms(self.mp.next_maintain(at(self.now)));
            if self.now + wait > target {
                break;
            }
            guard = if wait <= 0.0 { guard + 1 } else { 0 };
            if guard > 200 {
                if v.c06 {
                    m.violation("maintenance-does-not-advance", "more than 200 consecutive maintenance rounds fell due at the same instant", replay(self));
                }
                self.dead = true;
                return;
            }
            let t = self.now + wait;
            self.set_now(t);
            let calls_before = self.fetcher.log.lock().unwrap().calls.len();
            let r = self.mp.maintain(at(self.now)).await;
            self.maint_steps += 1;
            self.last_maint = self.now;
            if r.is_some() {
                // idle: the real task exits and drops the set
                self.dead = true;
                m.count("idle_exits");
                return;
            }
            let calls_after = self.fetcher.log.lock().unwrap().calls.len();
            if calls_after > calls_before {
                self.last_refresh = self.now;
                self.after_lookup(m, v, replay);
            }
            self.invariants(m, v, replay);
        }
        if !self.dead {
            self.set_now(target.max(self.now));
        }
    }

    /// C06: re-attempts no sooner than the minimum delay, no later than the backoff ceiling
    fn after_lookup(&mut self, m: &mut Mon, v: &Verdicts, replay: &dyn Fn(&World) -> serde_json::Value) {
        if !v.c06 {
            return;
        }
        let next = self.mp.next_refetch().duration_since(SystemTime::UNIX_EPOCH).unwrap().as_secs_f64();
        let gap = next - self.now;
        let min = self.cfg.min_refetch_delay.as_secs_f64();
        let ceil = self.cfg.refetch_interval.as_secs_f64().max(self.cfg.backoff_max.as_secs_f64()).max(min);
        m.count("lookups_scheduled");
        if gap < min - 0.002 {
            m.violation("refetch-sooner-than-min-delay", format!("next lookup scheduled {gap:.3}s after a lookup, minimum delay {min}s"), replay(self));
        }
        if gap > ceil + 0.002 {
            m.violation("refetch-later-than-ceiling", format!("next lookup scheduled {gap:.3}s after a lookup, ceiling max(refetch interval, backoff maximum) = {ceil}s"), replay(self));
        }
    }

    /// structural invariants checked after every step
    pub fn invariants(&mut self, m: &mut Mon, v: &Verdicts, replay: &dyn Fn(&World) -> serde_json::Value) {
        let cached = self.mp.cached_paths(at(self.now));
        if v.c06 {
            if cached.len() > self.cfg.max_cached_paths_per_pair {
                m.violation("cache-exceeds-maximum", format!("{} cached paths, configured maximum {}", cached.len(), self.cfg.max_cached_paths_per_pair), replay(self));
            }
            let (cache, fifo, max) = self.mp.issue_memory();
            if cache > max {
                m.violation("issue-cache-exceeds-size", format!("{cache} cached issues, configured size {max}"), replay(self));
            }
            if fifo > max {
                m.violation("issue-queue-exceeds-size", format!("{fifo} queued issue ids, configured size {max}"), replay(self));
            }
        }
        if v.c07 {
            // paths recover: a penalty older than 20 half-lives (30 min) is gone
            for c in &cached {
                if c.reliability < -0.01 && !self.reports.iter().any(|(t, conn, hit)| self.now - t <= 1801.0 && path_uses(&c.path, *conn, hit)) {
                    m.violation("penalty-not-decayed", format!("path {} still carries reliability {} although no report named it in the last 30 minutes", route_key(&c.path), c.reliability), replay(self));
                }
                if c.reliability < -0.01 {
                    m.count("penalised_path_observations");
                }
            }
        }
        if v.c05 {
            // everything in the cache passed the filter
            for c in &cached {
                if !self.pol.allows(&c.path) {
                    m.violation("cached-path-violates-policy", format!("cache holds a path the policy {:?} rejects", self.pol), replay(self));
                }
            }
            if let Some(a) = self.mp.active_path()
                && !cached.iter().any(|c| c.path.fingerprint() == a.fingerprint())
            {
                m.violation("active-path-not-in-cache", "the published path is not one of the cached candidates", replay(self));
            }
        }
    }

    pub async fn apply(&mut self, ev: &Ev, m: &mut Mon, v: &Verdicts, replay: &dyn Fn(&World) -> serde_json::Value) {
        if self.dead {
            return;
        }
        self.history.push(format!("t={:.1} {ev:?}", self.now - BASE_TS as f64));
        match ev {
            Ev::LookupOk { generation, mask, strip } => {
                let g = &self.pool.gens[*generation % self.pool.gens.len()];
                let mut sel: Vec<ScionPath> = g.iter().enumerate().filter(|(i, _)| mask >> (i % 32) & 1 == 1).map(|(_, p)| p.clone()).collect();
                for (i, p) in sel.iter_mut().enumerate() {
                    if strip >> (i % 32) & 1 == 1 {
                        // metadata gone, or present but without the interface list / with an empty one
                        let md = match (strip >> 8).wrapping_add(i as u32) % 3 {
                            0 => None,
                            1 => p.metadata().cloned().map(|mut m| {
                                m.interfaces = Some(vec![]);
                                m
                            }),
                            _ => p.metadata().cloned().map(|mut m| {
                                m.interfaces = None;
                                m
                            }),
                        };
                        *p = ScionPath::new(p.src_ia(), p.dst_ia(), p.dp_path().clone(), md, None);
                    }
                }
                self.fetcher.log.lock().unwrap().response = Some(Ok(sel));
            }
            Ev::LookupEmpty => self.fetcher.log.lock().unwrap().response = Some(Ok(vec![])),
            Ev::LookupErr => self.fetcher.log.lock().unwrap().response = Some(Err("lookup failed".into())),
            Ev::Advance(dt) => {
                let t = self.now + dt;
                self.run_task_until(t, m, v, replay).await;
            }
            Ev::ToNextMaintain(delta) => {
                let wait = ceil_ms(self.mp.next_maintain(at(self.now)));
                let t = (self.now + wait + delta).max(self.now);
                self.run_task_until(t, m, v, replay).await;
            }
            Ev::ToActiveExpiry(delta) => {
                if let Some(e) = self.mp.active_path().and_then(|p| p.expiration()) {
                    let t = (e as f64 + delta).max(self.now);
                    // bounded horizon
                    if t - self.now < 2.0 * 86400.0 {
                        self.run_task_until(t, m, v, replay).await;
                    }
                }
            }
            Ev::IfaceDown { .. } | Ev::ConnDown { .. } | Ev::FirstHopDown { .. } | Ev::IfaceDownBurst { .. } => self.report(ev, m, v, replay),
            Ev::RepeatLast => self.repeat_last(m),
            Ev::RepeatUntilLookup { step, max } => {
                let calls = self.fetcher.log.lock().unwrap().calls.len();
                for _ in 0..*max {
                    if self.dead || self.fetcher.log.lock().unwrap().calls.len() > calls {
                        break;
                    }
                    self.repeat_last(m);
                    let t = self.now + step;
                    self.run_task_until(t, m, v, replay).await;
                }
            }
            Ev::Send => self.send(m, v, replay).await,
        }
        self.invariants(m, v, replay);
    }

    fn report(&mut self, ev: &Ev, m: &mut Mon, v: &Verdicts, replay: &dyn Fn(&World) -> serde_json::Value) {
        let before = self.mp.active_path();
        let before_scores: Vec<(String, f32)> = self.mp.cached_paths(at(self.now)).iter().map(|c| (route_key(&c.path), c.score)).collect();
        let Some(active) = before.clone() else {
            return;
        };
        let Some(ifs) = ifaces(&active) else { return };
        // which (AS, interface) set does the report name, and does it lie on the active path?
        let mut hit: Vec<(IsdAsn, u16)> = vec![];
        let foreign_as = IsdAsn::new(sciparse::identifier::isd::Isd(63), sciparse::identifier::asn::Asn::new(0xff00_0000_0999));
        match ev {
            Ev::IfaceDown { pos, foreign } => {
                // egress interfaces are the even positions of the interface list
                let egress: Vec<(IsdAsn, u16)> = ifs.iter().step_by(2).cloned().collect();
                let (a, i) = if *foreign { (foreign_as, 77) } else { egress[pos % egress.len()] };
                if !*foreign {
                    hit.push((a, i));
                }
                self.mp.report_scmp_error(at(self.now), ScmpErrorMessage::ExternalInterfaceDown(ScmpExternalInterfaceDown::new(a, i, vec![])));
            }
            Ev::IfaceDownBurst { pos } => {
                let egress: Vec<(IsdAsn, u16)> = ifs.iter().step_by(2).cloned().collect();
                let (a, i) = egress[pos % egress.len()];
                hit.push((a, i));
                // both are queued before the worker looks at its channel
                self.mp.report_scmp_error(at(self.now), ScmpErrorMessage::ExternalInterfaceDown(ScmpExternalInterfaceDown::new(foreign_as, 78, vec![])));
                self.mp.report_scmp_error(at(self.now), ScmpErrorMessage::ExternalInterfaceDown(ScmpExternalInterfaceDown::new(a, i, vec![])));
                self.n_reports += 1;
            }
            Ev::ConnDown { pos } => {
                // transit AS k: ingress = ifs[2k+1], egress = ifs[2k+2]
                let transits = (ifs.len() / 2).saturating_sub(1);
                if transits == 0 {
                    return;
                }
                let k = pos % transits;
                let (a, ing) = ifs[2 * k + 1];
                let (_, eg) = ifs[2 * k + 2];
                hit.push((a, ing));
                hit.push((a, eg));
                self.mp.report_scmp_error(at(self.now), ScmpErrorMessage::InternalConnectivityDown(ScmpInternalConnectivityDown::new(a, ing, eg, vec![])));
            }
            Ev::FirstHopDown { foreign } => {
                let (a, i) = if *foreign { (ifs[0].0, ifs[0].1.wrapping_add(1000)) } else { ifs[0] };
                if !*foreign {
                    hit.push((a, i));
                }
                self.mp.report_first_hop_unreachable(at(self.now), a, i);
            }
            _ => unreachable!(),
        }
        self.mp.handle_pending_issues(at(self.now));
        m.count("issue_reports");
        self.n_reports += 1;
        if !v.c07 {
            return;
        }
        let after = self.mp.active_path();
        let cached = self.mp.cached_paths(at(self.now));
        let uses = |p: &ScionPath, hit: &[(IsdAsn, u16)]| -> bool {
            let Some(v) = ifaces(p) else { return false };
            match ev {
                // an internal-connectivity report names an (ingress, egress) pair of one AS
                Ev::ConnDown { .. } => v.windows(2).any(|w| w[0] == hit[0] && w[1] == hit[1]),
                _ => hit.iter().any(|h| v.contains(h)),
            }
        };
        if hit.is_empty() {
            // a report that matches no path in use changes nothing
            m.count("foreign_reports");
            let after_scores: Vec<(String, f32)> = cached.iter().map(|c| (route_key(&c.path), c.score)).collect();
            if before.as_ref().map(route_key) != after.as_ref().map(route_key) {
                m.violation("unrelated-report-changed-active-path", "a failure report naming no interface of any cached path switched the active path", replay(self));
            }
            let bs: BTreeMap<_, _> = before_scores.into_iter().collect();
            for (k, s) in after_scores {
                if let Some(b) = bs.get(&k)
                    && (b - s).abs() > 1e-4
                    && !cached.iter().any(|c| route_key(&c.path) == k && uses(&c.path, &[(ifs[0].0, ifs[0].1.wrapping_add(1000))]))
                {
                    m.violation("unrelated-report-changed-scores", format!("score of {k} moved from {b} to {s}"), replay(self));
                }
            }
            return;
        }
        m.count("reports_hitting_active_path");
        self.last_hit = Some((match ev { Ev::ConnDown { .. } => 1, Ev::FirstHopDown { .. } => 2, _ => 0 }, hit.clone()));
        self.reports.push((self.now, matches!(ev, Ev::ConnDown { .. }), hit.clone()));
        let now = at(self.now);
        // an alternative that avoids the interface, is valid, and carries no fresh penalty itself
        let alt_exists = cached.iter().any(|c| !uses(&c.path, &hit) && c.reliability > -0.05 && c.path.expiration().map(|e| (e as f64) > self.now + self.cfg.min_expiry_threshold.as_secs_f64()).unwrap_or(false));
        let _ = now;
        if alt_exists {
            m.count("reports_with_alternative");
            let kind = match ev {
                Ev::IfaceDown { .. } | Ev::IfaceDownBurst { .. } => "scmp-external-interface-down",
                Ev::ConnDown { .. } => "scmp-internal-connectivity-down",
                _ => "first-hop-send-failure",
            };
            match &after {
                Some(a) if !uses(a, &hit) => {
                    m.count("failovers");
                    self.fresh.push((self.now, match ev { Ev::IfaceDown { .. } | Ev::IfaceDownBurst { .. } => 0, Ev::ConnDown { .. } => 1, _ => 2 }, hit.clone(), self.n_reports));
                }
                // the new path enters an AS through the reported interface: the manager only
                // matches an external-interface report against egress interfaces
                Some(a) if matches!(ev, Ev::IfaceDown { .. } | Ev::IfaceDownBurst { .. }) && before.as_ref().map(route_key) != Some(route_key(a)) && ifaces(a).map(|v| !v.iter().step_by(2).any(|x| hit.contains(x))).unwrap_or(false) => {
                    m.violation("interface-down-ignored-for-paths-entering-through-it", format!("after a {kind} report for {hit:?} traffic moved to a path that uses the same interface as ingress"), replay(self))
                }
                Some(_) => m.violation(format!("no-failover:{kind}"), format!("after a {kind} report for {hit:?} the next send still uses a path over it although a valid cached path avoids it (swap threshold {})", self.cfg.path_swap_score_threshold), replay(self)),
                None => m.violation(format!("no-path-after-report:{kind}"), "no active path after the report although an alternative is cached", replay(self)),
            }
        }
    }

    fn repeat_last(&mut self, m: &mut Mon) {
        let Some((kind, hit)) = self.last_hit.clone() else { return };
        match kind {
            0 => self.mp.report_scmp_error(at(self.now), ScmpErrorMessage::ExternalInterfaceDown(ScmpExternalInterfaceDown::new(hit[0].0, hit[0].1, vec![]))),
            1 => self.mp.report_scmp_error(at(self.now), ScmpErrorMessage::InternalConnectivityDown(ScmpInternalConnectivityDown::new(hit[0].0, hit[0].1, hit[1].1, vec![]))),
            _ => self.mp.report_first_hop_unreachable(at(self.now), hit[0].0, hit[0].1),
        }
        self.mp.handle_pending_issues(at(self.now));
        m.count("issue_reports");
        m.count("repeated_reports");
        self.n_reports += 1;
        self.reports.push((self.now, kind == 1, hit.clone()));
        // a report inside the dedup window is ignored by design: it does not renew freshness
        let window = self.cfg.issue_deduplication_window.as_secs_f64();
        let renewed = self.fresh.iter().rev().find(|f| f.2 == hit).map(|f| self.now - f.0 >= window).unwrap_or(true);
        // freshness is about traffic that has moved away: only if the active path avoids it now
        let away = self.mp.active_path().map(|a| !path_uses(&a, kind == 1, &hit)).unwrap_or(false);
        if renewed && away {
            self.fresh.push((self.now, kind, hit, self.n_reports));
        }
    }

    async fn send(&mut self, m: &mut Mon, v: &Verdicts, replay: &dyn Fn(&World) -> serde_json::Value) {
        m.count("sends");
        let now_st = at(self.now);
        let mgr = self.mp.manager().clone();
        let got: Result<ScionPath, String> = match mgr.cached_path(self.pool.src, self.pool.dst, now_st) {
            Some(p) => Ok(p),
            None => mgr.path(self.pool.src, self.pool.dst, now_st).await.map_err(|e| e.to_string()),
        };
        let cached = self.mp.cached_paths(now_st);
        let log = self.fetcher.log.lock().unwrap();
        match &got {
            Ok(p) => {
                m.count("sends_with_path");
                if v.c05 {
                    if !self.pol.allows(p) {
                        m.violation("sender-got-path-violating-policy", format!("path handed to the sender is rejected by {:?} (metadata present: {})", self.pol, p.metadata().is_some()), replay(self));
                    }
                    if p.src_ia() != self.pool.src || p.dst_ia() != self.pool.dst {
                        m.violation("sender-got-path-for-other-pair", format!("{} -> {}", p.src_ia(), p.dst_ia()), replay(self));
                    }
                    if !log.returned.iter().any(|q| q == p) {
                        m.violation("sender-got-path-no-lookup-returned", "the path handed out is not one any lookup returned", replay(self));
                    }
                }
                if v.c06 && p.expiration().map(|e| (e as f64) <= self.now).unwrap_or(false) {
                    // did the worker have a maintenance round at or after the expiry instant?
                    // the known gap: no lookup round since the expiry, because lookups failed
                    // (backoff) or because the path was already inside threshold + minimum delay
                    // when the last successful lookup scheduled the next one
                    let exp = p.expiration().unwrap() as f64;
                    // successful as the manager sees it (a result holding only expired paths counts as failed)
                    let last_ok = log.classes.last() == Some(&'o') && self.mp.failed_attempts() == 0;
                    let room = exp - self.last_refresh;
                    let sig = if self.last_refresh >= exp {
                        "expired-path-handed-out:after-a-path-refresh"
                    } else if last_ok && room > self.cfg.min_expiry_threshold.as_secs_f64() + self.cfg.min_refetch_delay.as_secs_f64() + 1.0 {
                        "expired-path-handed-out:next-lookup-scheduled-after-the-expiry"
                    } else {
                        "expired-path-handed-out:no-path-refresh-since-expiry"
                    };
                    m.violation(sig, format!("path expired {}s ago (lookup classes so far: {})", self.now - p.expiration().unwrap() as f64, log.classes.iter().collect::<String>()), replay(self));
                }
                if v.c07 {
                    // traffic does not return to a failed interface while the penalty is fresh
                    // (within one decay half-life of the report: 30 s)
                    for (t, kind, hit, nth) in &self.fresh {
                        // only while the bounded issue memory still holds the report
                        if self.now - t <= 30.0 && self.n_reports - nth < self.cfg.issue_cache_size as u64 && path_uses(p, *kind == 1, hit) {
                            let ext_if = &(*kind == 0);
                            let alt = cached.iter().any(|c| c.reliability > -0.05 && !path_uses(&c.path, *kind == 1, hit) && c.path.expiration().map(|e| e as f64 > self.now + self.cfg.min_expiry_threshold.as_secs_f64()).unwrap_or(false));
                            let only_as_ingress = *ext_if && ifaces(p).map(|v| !v.iter().step_by(2).any(|x| hit.contains(x))).unwrap_or(false);
                            if alt && only_as_ingress {
                                m.violation("interface-down-ignored-for-paths-entering-through-it", format!("{:.1}s after the external-interface-down report for {hit:?} the sender uses a path entering through that interface", self.now - t), replay(self));
                            } else if alt {
                                m.violation("returned-to-failed-interface-while-fresh", format!("{:.1}s after the report the sender is back on {hit:?}", self.now - t), replay(self));
                            }
                        }
                    }
                }
            }
            Err(e) => {
                m.count("sends_without_path");
                if v.c06 {
                    let live: Vec<_> = cached.iter().filter(|c| c.path.expiration().map(|x| (x as f64) > self.now).unwrap_or(false)).collect();
                    if !live.is_empty() {
                        let thr = self.cfg.min_expiry_threshold.as_secs_f64();
                        let valid = live.iter().any(|c| c.path.expiration().unwrap() as f64 > self.now + thr);
                        m.violation(
                            if valid { "sender-left-without-path:valid-path-cached" } else { "sender-left-without-path:only-near-expiry-paths-cached" },
                            format!("send failed ({e}) although {} unexpired path(s) are cached", live.len()),
                            replay(self),
                        );
                    }
                }
            }
        }
        m.shape(&("send", got.is_ok(), cached.len().min(4), log.classes.last().copied()));
    }
}

pub fn replay_json(w: &World, info: &serde_json::Value) -> serde_json::Value {
    json!({"case": info, "policy": format!("{:?}", w.pol), "config": format!("{:?}", w.cfg), "history": w.history, "now": w.now - BASE_TS as f64,
        "cached": w.mp.cached_paths(at(w.now)).iter().map(|c| json!({"route": route_key(&c.path), "score": c.score, "reliability": c.reliability, "expires_in": c.path.expiration().map(|e| e as f64 - w.now)})).collect::<Vec<_>>(),
        "active": w.mp.active_path().map(|p| route_key(&p))})
}

pub fn all_routes(pool: &Pool) -> BTreeSet<String> {
    pool.gens[0].iter().map(route_key).collect()
}
