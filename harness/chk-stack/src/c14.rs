//! C14 — SCMP handling: bounded quoting, valid checksums, faithful echo, no error loops.
//!
//! Observed at: encoded bytes of every SCMP error packet built through sciparse's
//! `ScionScmpPacket` (the constructor every component uses), through pocketscion's
//! `LocalNetworkSimulation` (SendSCMPErrorResponse / ForwardLocal / SCMP request handling) and
//! through scion-stack's `DefaultEchoHandler::handle`. Oracle: refscion's independent decoder,
//! checksum, path reversal and SCMP layout table.

use std::net::SocketAddr;

use pocketscion::network::{
    local::{external_as_registry::ExternalAsRegistry, receiver_registry::NetworkReceiverRegistry, simulator::LocalNetworkSimulation},
    scion::{routing::LocalAsRoutingAction, topology::ScionRouter},
};
use refscion::wire::{RHop, RInfo, RPacket, RPath, RScmp, RStdPath};
use scion_stack::stack::scmp_handler::{DefaultEchoHandler, ScmpHandler};
use sciparse::{
    core::{encode::WireEncode, view::View},
    dataplane_path::view::ScionDpPathViewExt,
    identifier::isd_asn::IsdAsn,
    packet::{model::ScionScmpPacket, view::ScionRawPacketView},
    payload::scmp::{
        model::{ScmpDestinationUnreachable, ScmpErrorMessage, ScmpExternalInterfaceDown, ScmpInternalConnectivityDown, ScmpMessage, ScmpPacketTooBig, ScmpParameterProblem},
        types::{ScmpDestinationUnreachableCode, ScmpParameterProblemCode},
    },
};
use serde_json::json;
use vmon::{Args, Mon, Rng, catch, hex, par_run};

const MAX_SCMP: usize = 1232;

pub(crate) fn std_path(r: &mut Rng, at_end: bool) -> RStdPath {
    let a = r.range(1, 6) as u8;
    let b = if r.bool() { r.range(1, 5) as u8 } else { 0 };
    let c = if b > 0 && r.bool() { r.range(1, 5) as u8 } else { 0 };
    let seg_len = [a, b, c];
    let nh = RStdPath::n_hops(seg_len);
    let ni = RStdPath::n_infos(seg_len);
    let curr_hf = if at_end { nh - 1 } else { r.usize(nh) } as u8;
    let curr_inf = if (curr_hf as usize) < a as usize { 0 } else if (curr_hf as usize) < (a + b) as usize { 1 } else { 2 };
    RStdPath {
        curr_inf,
        curr_hf,
        rsv: 0,
        seg_len,
        infos: (0..ni).map(|_| RInfo { flags: r.u8() & 1, rsv: 0, seg_id: r.u16(), timestamp: r.u32() }).collect(),
        hops: (0..nh).map(|_| RHop { flags: 0, exp: r.u8(), cons_in: r.u16(), cons_eg: r.u16(), mac: <[u8; 6]>::try_from(r.bytes(6)).unwrap() }).collect(),
    }
}

fn host(r: &mut Rng) -> (u8, Vec<u8>) {
    match r.below(3) {
        0 => (0, vec![10, 0, r.u8(), r.u8() | 1]),
        1 => (0, {
            let mut v = r.bytes(16);
            v[0] = 0x20;
            v
        }),
        _ => (0, vec![192, 168, r.u8(), r.u8() | 1]),
    }
}

/// a SCION packet by the reference encoder; SCMP payloads get a correct checksum unless told not to
fn packet(r: &mut Rng, path: RPath, next_hdr: u8, mut payload: Vec<u8>, fix_checksum: bool) -> (RPacket, Vec<u8>) {
    let (st, src) = host(r);
    let (dt, dst) = host(r);
    let path_type = match &path {
        RPath::Empty => 0,
        RPath::Standard(_) => 1,
        RPath::OneHop { .. } => 2,
        RPath::Opaque { path_type, .. } => *path_type,
    };
    let mut p = RPacket {
        version: 0,
        traffic_class: 0,
        flow_id: r.u32() & 0xfffff,
        next_hdr,
        hdr_len_units: 0,
        payload_len: 0,
        path_type,
        dt,
        dl: 0,
        st,
        sl: 0,
        rsv: 0,
        dst_ia: (1u64 << 48) | 0xff00_0000_0110 + r.below(4),
        src_ia: (2u64 << 48) | 0xff00_0000_0220 + r.below(4),
        dst_host: dst,
        src_host: src,
        path,
        payload: vec![],
        trailing: 0,
    };
    if next_hdr == 202 && fix_checksum && payload.len() >= 4 {
        payload[2] = 0;
        payload[3] = 0;
        let ck = p.l4_checksum_over(&payload, 202);
        payload[2..4].copy_from_slice(&ck.to_be_bytes());
    }
    p.payload = payload;
    p.fix_lengths();
    let bytes = p.encode();
    (p, bytes)
}

/// a SCION packet between given endpoints by the reference encoder; UDP / SCMP payloads get a
/// correct checksum if asked to
#[allow(clippy::too_many_arguments)]
pub(crate) fn packet_with(src_ia: u64, src: (u8, Vec<u8>), dst_ia: u64, dst: (u8, Vec<u8>), path: RPath, next_hdr: u8, mut payload: Vec<u8>, fix_checksum: bool, r: &mut Rng) -> (RPacket, Vec<u8>) {
    let path_type = match &path {
        RPath::Empty => 0,
        RPath::Standard(_) => 1,
        RPath::OneHop { .. } => 2,
        RPath::Opaque { path_type, .. } => *path_type,
    };
    let mut p = RPacket {
        version: 0,
        traffic_class: r.u8(),
        flow_id: r.u32() & 0xfffff,
        next_hdr,
        hdr_len_units: 0,
        payload_len: 0,
        path_type,
        dt: dst.0,
        dl: 0,
        st: src.0,
        sl: 0,
        rsv: 0,
        dst_ia,
        src_ia,
        dst_host: dst.1,
        src_host: src.1,
        path,
        payload: vec![],
        trailing: 0,
    };
    let at = match next_hdr {
        202 => Some(2),
        17 => Some(6),
        _ => None,
    };
    if let Some(at) = at
        && fix_checksum
        && payload.len() >= at + 2
    {
        payload[at] = 0;
        payload[at + 1] = 0;
        let ck = p.l4_checksum_over(&payload, next_hdr);
        payload[at..at + 2].copy_from_slice(&ck.to_be_bytes());
    }
    p.payload = payload;
    p.fix_lengths();
    let bytes = p.encode();
    (p, bytes)
}

pub(crate) fn scmp_bytes(typ: u8, code: u8, rest: &[u8]) -> Vec<u8> {
    let mut v = vec![typ, code, 0, 0];
    v.extend_from_slice(rest);
    v
}

fn random_path(r: &mut Rng, at_end: bool) -> RPath {
    match r.below(5) {
        0 => RPath::Empty,
        _ => RPath::Standard(std_path(r, at_end)),
    }
}

fn error_message(r: &mut Rng, kind: u64, offending: Vec<u8>) -> (ScmpErrorMessage, u8, usize) {
    let ia = IsdAsn::from_u64((1u64 << 48) | 0xff00_0000_0111);
    match kind {
        0 => (
            ScmpErrorMessage::DestinationUnreachable(ScmpDestinationUnreachable::new(
                *r.pick(&[ScmpDestinationUnreachableCode::NoRouteToDestination, ScmpDestinationUnreachableCode::AddressUnreachable, ScmpDestinationUnreachableCode::PortUnreachable, ScmpDestinationUnreachableCode::CommunicationAdministrativelyDenied]),
                offending,
            )),
            1,
            4,
        ),
        1 => (ScmpErrorMessage::PacketTooBig(ScmpPacketTooBig::new(r.u16(), offending)), 2, 4),
        2 => (
            ScmpErrorMessage::ParameterProblem(ScmpParameterProblem::new(*r.pick(&[ScmpParameterProblemCode::InvalidCommonHeader, ScmpParameterProblemCode::UnknownPathType, ScmpParameterProblemCode::InvalidSourceAddress, ScmpParameterProblemCode::NonLocalDelivery]), r.u16(), offending)),
            4,
            4,
        ),
        3 => (ScmpErrorMessage::ExternalInterfaceDown(ScmpExternalInterfaceDown::new(ia, r.u16(), offending)), 5, 16),
        _ => (ScmpErrorMessage::InternalConnectivityDown(ScmpInternalConnectivityDown::new(ia, r.u16(), r.u16(), offending)), 6, 24),
    }
}

/// checks every clause on one encoded SCMP error packet
fn judge_error_packet(bytes: &[u8], offending: &[u8], want_type: Option<u8>, origin: &'static str, m: &mut Mon, replay: &serde_json::Value) {
    m.count("error_packets");
    if bytes.len() > MAX_SCMP {
        m.violation(format!("{origin}:error-packet-exceeds-1232"), format!("{} bytes", bytes.len()), replay.clone());
    }
    let p = match RPacket::decode(bytes) {
        Ok(p) => p,
        Err(e) => {
            m.violation(format!("{origin}:error-packet-unparseable"), format!("{e:?}"), replay.clone());
            return;
        }
    };
    if p.next_hdr != 202 {
        m.violation(format!("{origin}:error-packet-not-scmp"), format!("next header {}", p.next_hdr), replay.clone());
        return;
    }
    let Some(s) = RScmp::decode(&p.payload) else {
        m.violation(format!("{origin}:error-packet-truncated-scmp"), "", replay.clone());
        return;
    };
    if let Some(t) = want_type
        && s.typ != t
    {
        m.violation(format!("{origin}:error-packet-wrong-type"), format!("type {} expected {t}", s.typ), replay.clone());
    }
    let mut z = p.payload.clone();
    z[2] = 0;
    z[3] = 0;
    if p.l4_checksum_over(&z, 202) != s.checksum {
        m.violation(format!("{origin}:error-packet-bad-checksum"), format!("type {}", s.typ), replay.clone());
    }
    match s.error_info_len() {
        None => m.violation(format!("{origin}:error-packet-unknown-layout"), format!("type {}", s.typ), replay.clone()),
        Some(n) if s.body.len() < n => m.violation(format!("{origin}:error-packet-short-info-block"), format!("type {} body {}", s.typ, s.body.len()), replay.clone()),
        Some(n) => {
            let quote = &s.body[n..];
            if !offending.starts_with(quote) {
                m.violation(format!("{origin}:quote-is-not-a-prefix"), format!("type {}: quoted {} bytes", s.typ, quote.len()), replay.clone());
            }
            m.shape(&(origin, s.typ, quote.len() == offending.len(), bytes.len() == MAX_SCMP, p.path_type, p.src_host.len(), p.dst_host.len()));
        }
    }
}

fn view_of(bytes: &[u8]) -> Option<Box<ScionRawPacketView>> {
    ScionRawPacketView::try_from_boxed(bytes.to_vec().into_boxed_slice()).ok()
}

pub fn run(args: &Args, mon: &mut Mon) -> (String, Vec<&'static str>) {
    mon.floor("error_packets", 3000);
    mon.floor("echo_replies", 500);
    mon.floor("echo_over_onehop", 50);
    mon.floor("no_reply_cases", 2000);
    mon.floor("sim_replies", 500);
    let thorough = args.thorough();
    let scale = args.param_u64("scale", 1);
    let seed = args.seed;
    let n: u64 = if thorough { 150_000 * scale } else { 8_000 * scale };
    par_run(mon, args.threads, n, |i, m| {
        if !args.mine(i) {
            return;
        }
        let mut r = Rng::fork(seed, 0x1400_0000 + i);
        let info = json!({"seed": seed, "index": i});
        m.eval();
        // the packet that is answered: a UDP datagram (or anything) from some sender
        let req_path = random_path(&mut r, true);
        let off_len = match r.below(8) {
            0 => 0,
            1 => r.usize(64),
            2 | 3 => 1000 + r.usize(300),
            4 => 1232,
            5 => 2000,
            6 => 9216 - 200,
            _ => r.usize(9000),
        };
        let payload_len = off_len.saturating_sub(100);
        let (off_model, offending) = {
            let pl = r.bytes(payload_len);
            packet(&mut r, req_path.clone(), 17, pl, false)
        };
        let Some(off_view) = view_of(&offending) else {
            m.count("skipped_unparseable_offender");
            return;
        };

        // --- A: every error kind built through sciparse's model, replying over the reversed path
        for kind in 0..5u64 {
            let (msg, typ, _info_len) = error_message(&mut r, kind, offending.clone());
            let replay = json!({"case": info, "part": "sciparse-model", "kind": kind, "offending_len": offending.len(), "offending_head": hex(&offending[..offending.len().min(120)])});
            let built = catch(|| {
                let mut path = off_view.header().path().to_model();
                path.try_reverse().ok()?;
                let src = off_view.dst_scion_addr().ok()?;
                let dst = off_view.src_scion_addr().ok()?;
                let pkt = ScionScmpPacket::new(src, dst, path, ScmpMessage::from(msg));
                Some(pkt.try_encode_to_vec())
            });
            match built {
                Err(p) => m.violation(format!("panic:scmp-error-encode:{}", p.site()), p.0, replay),
                Ok(None) => m.count("reverse_failed"),
                Ok(Some(Err(e))) => m.violation("sciparse:error-packet-encode-failed", format!("{e:?}"), replay),
                Ok(Some(Ok(bytes))) => judge_error_packet(&bytes, &offending, Some(typ), "sciparse", m, &replay),
            }
        }

        // --- E: pocketscion's local simulation answering the same packet
        let router = ScionRouter::new(vec![1, 2], "10.9.9.9:30001".parse::<SocketAddr>().unwrap());
        let receivers = NetworkReceiverRegistry::new();
        let externals = ExternalAsRegistry::new();
        let local_as = IsdAsn::from_u64(off_model.dst_ia);
        let sim = LocalNetworkSimulation::new(local_as, 1, &receivers, &externals, &router);
        {
            let kind = r.below(5);
            let (msg, typ, _) = error_message(&mut r, kind, offending.clone());
            let replay = json!({"case": info, "part": "pocketscion-send-scmp-error", "kind": kind, "offending_len": offending.len()});
            let mut v = view_of(&offending).unwrap();
            match catch(|| sim.handle_local_routing_action(LocalAsRoutingAction::SendSCMPErrorResponse(msg), &mut v)) {
                Err(p) => m.violation(format!("panic:pocketscion-scmp:{}", p.site()), p.0, replay),
                Ok(Err(_)) => m.count("sim_errors"),
                Ok(Ok(None)) => m.count("sim_no_reply"),
                Ok(Ok(Some(reply))) => {
                    m.count("sim_replies");
                    match reply.try_encode_to_vec() {
                        Ok(b) => judge_error_packet(&b, &offending, Some(typ), "pocketscion", m, &replay),
                        Err(e) => m.violation("pocketscion:error-packet-encode-failed", format!("{e:?}"), replay),
                    }
                }
            }
            // nobody listens in this AS: delivery fails with destination unreachable
            let replay = json!({"case": info, "part": "pocketscion-forward-local", "offending_len": offending.len()});
            let mut v = view_of(&offending).unwrap();
            match catch(|| sim.handle_local_routing_action(LocalAsRoutingAction::ForwardLocal, &mut v)) {
                Err(p) => m.violation(format!("panic:pocketscion-scmp:{}", p.site()), p.0, replay),
                Ok(Ok(Some(reply))) => {
                    m.count("sim_replies");
                    if let Ok(b) = reply.try_encode_to_vec() {
                        // the simulator quotes the packet it was handed
                        judge_error_packet(&b, &offending, None, "pocketscion", m, &replay);
                    }
                }
                Ok(_) => m.count("sim_no_reply"),
            }
        }

        // --- B: echo
        let id = r.u16();
        let seq = r.u16();
        let data = r.bytes_upto(300);
        let mut rest = vec![];
        rest.extend_from_slice(&id.to_be_bytes());
        rest.extend_from_slice(&seq.to_be_bytes());
        rest.extend_from_slice(&data);
        // one request in five arrives over a completed one-hop path
        let echo_path = if r.chance(1, 5) {
            let mk = |r: &mut Rng| RHop { flags: 0, exp: r.u8(), cons_in: 1 + r.u16() % 65535, cons_eg: r.u16(), mac: <[u8; 6]>::try_from(r.bytes(6)).unwrap() };
            RPath::OneHop { info: RInfo { flags: r.u8() & 1, rsv: 0, seg_id: r.u16(), timestamp: r.u32() }, hops: [mk(&mut r), mk(&mut r)] }
        } else {
            random_path(&mut r, true)
        };
        let (req_model, req) = packet(&mut r, echo_path.clone(), 202, scmp_bytes(128, 0, &rest), true);
        let handler = DefaultEchoHandler::new();
        let replay = json!({"case": info, "part": "echo", "request": hex(&req[..req.len().min(200)])});
        if let Some(v) = view_of(&req) {
            match catch(|| handler.handle(&v)) {
                Err(p) => m.violation(format!("panic:echo-handler:{}", p.site()), p.0, replay.clone()),
                Ok(None) => m.violation("echo-request-not-answered", "a well-formed echo request got no reply", replay.clone()),
                Ok(Some(reply)) => {
                    m.count("echo_replies");
                    match reply.try_encode_to_vec() {
                        Err(e) => m.violation("echo-reply-encode-failed", format!("{e:?}"), replay.clone()),
                        Ok(b) => match RPacket::decode(&b) {
                            Err(e) => m.violation("echo-reply-unparseable", format!("{e:?}"), replay.clone()),
                            Ok(p) => {
                                let s = RScmp::decode(&p.payload);
                                let ok_msg = s.as_ref().map(|s| s.typ == 129 && s.code == 0 && s.body == rest).unwrap_or(false);
                                if p.next_hdr != 202 || !ok_msg {
                                    m.violation("echo-reply-differs", "reply does not carry the same identifier, sequence number and data", replay.clone());
                                }
                                if p.dst_ia != req_model.src_ia || p.dst_host != req_model.src_host || p.src_ia != req_model.dst_ia || p.src_host != req_model.dst_host {
                                    m.violation("echo-reply-not-addressed-back", "source/destination are not those of the request swapped", replay.clone());
                                }
                                let want = match &echo_path {
                                    RPath::Standard(sp) => sp.reversed().map(RPath::Standard),
                                    // a one-hop path is answered over the two-hop standard path in
                                    // the opposite direction (hop fields swapped, CONS_DIR flipped)
                                    RPath::OneHop { info, hops } => {
                                        m.count("echo_over_onehop");
                                        Some(RPath::Standard(RStdPath { curr_inf: 0, curr_hf: 0, rsv: 0, seg_len: [2, 0, 0], infos: vec![RInfo { flags: info.flags ^ 1, ..info.clone() }], hops: vec![hops[1].clone(), hops[0].clone()] }))
                                    }
                                    other => Some(other.clone()),
                                };
                                if want.is_some() && Some(&p.path) != want.as_ref() {
                                    m.violation("echo-reply-path-not-reversed", "reply path is not the reversed request path", replay.clone());
                                }
                                if let Some(s) = s {
                                    let mut z = p.payload.clone();
                                    z[2] = 0;
                                    z[3] = 0;
                                    if p.l4_checksum_over(&z, 202) != s.checksum {
                                        m.violation("echo-reply-bad-checksum", "", replay.clone());
                                    }
                                }
                            }
                        },
                    }
                }
            }
            // the simulator's router answers echo requests addressed over its interface as well
            let mut v2 = view_of(&req).unwrap();
            if let Ok(Ok(Some(reply))) = catch(|| sim.handle_local_routing_action(LocalAsRoutingAction::IngressSCMPHandleRequest { interface_id: 1 }, &mut v2)) {
                m.count("sim_replies");
                if let Ok(b) = reply.try_encode_to_vec()
                    && let Ok(p) = RPacket::decode(&b)
                {
                    let s = RScmp::decode(&p.payload);
                    if !s.as_ref().map(|s| s.typ == 129 && s.body == rest).unwrap_or(false) {
                        m.violation("pocketscion:echo-reply-differs", "router echo reply does not mirror the request", replay.clone());
                    }
                    if p.dst_ia != req_model.src_ia || p.dst_host != req_model.src_host {
                        m.violation("pocketscion:echo-reply-not-addressed-back", "", replay.clone());
                    }
                }
            }
        }

        // --- C: nothing may answer an SCMP error or a malformed SCMP packet
        let mut quiet: Vec<(&'static str, Vec<u8>, bool)> = vec![];
        let quoted_echo = req.clone();
        for (typ, info_len) in [(1u8, 4usize), (2, 4), (4, 4), (5, 16), (6, 24)] {
            let mut body = r.bytes(info_len);
            body.extend_from_slice(&quoted_echo[..quoted_echo.len().min(600)]);
            quiet.push(("error-quoting-echo-request", scmp_bytes(typ, r.u8() & 7, &body), true));
        }
        {
            // an error quoting an error
            let mut inner = r.bytes(4);
            inner.extend_from_slice(&offending[..offending.len().min(100)]);
            let ip = random_path(&mut r, true);
            let (_, inner_pkt) = packet(&mut r, ip, 202, scmp_bytes(1, 0, &inner), true);
            let mut body = r.bytes(4);
            body.extend_from_slice(&inner_pkt);
            quiet.push(("error-quoting-error", scmp_bytes(4, 0, &body), true));
        }
        for t in [3u8, 7, 100, 127] {
            quiet.push(("unknown-error-type", scmp_bytes(t, 0, &r.bytes_upto(40)), true));
        }
        for t in [129u8, 131, 200, 255] {
            quiet.push(("informational-non-request", scmp_bytes(t, 0, &rest), true));
        }
        quiet.push(("echo-request-bad-checksum", scmp_bytes(128, 0, &rest), false));
        quiet.push(("echo-request-bad-checksum", scmp_bytes(128, 7, &rest), false));
        quiet.push(("truncated-scmp", vec![128], true));
        quiet.push(("truncated-scmp", vec![128, 0, 0], true));
        quiet.push(("truncated-echo", scmp_bytes(128, 0, &rest[..r.usize(4)]), true));
        for (typ, info_len) in [(1u8, 4usize), (2, 4), (4, 4), (5, 16), (6, 24)] {
            let n = r.usize(info_len);
            quiet.push(("truncated-error", scmp_bytes(typ, 0, &r.bytes(n)), true));
        }
        for (label, scmp, good_ck) in quiet {
            let qp = random_path(&mut r, true);
            let (_, bytes) = packet(&mut r, qp, 202, scmp.clone(), good_ck);
            let mut bytes = bytes;
            if !good_ck && bytes.len() >= 4 {
                // make sure the checksum really is wrong
                let n = bytes.len();
                let hl = bytes[5] as usize * 4;
                if n >= hl + 4 {
                    bytes[hl + 2] ^= 0x5a;
                }
            }
            let replay = json!({"case": info, "part": "no-reply", "label": label, "packet": hex(&bytes[..bytes.len().min(200)])});
            let Some(v) = view_of(&bytes) else {
                m.count("no_reply_cases");
                continue;
            };
            m.count("no_reply_cases");
            m.shape(&("quiet", label));
            match catch(|| handler.handle(&v)) {
                Err(p) => m.violation(format!("panic:echo-handler:{}", p.site()), p.0, replay.clone()),
                Ok(Some(_)) => m.violation(format!("reply-to:{label}"), "DefaultEchoHandler produced a reply", replay.clone()),
                Ok(None) => {}
            }
            for action in [LocalAsRoutingAction::IngressSCMPHandleRequest { interface_id: 1 }, LocalAsRoutingAction::ForwardLocal, LocalAsRoutingAction::SendSCMPErrorResponse(error_message(&mut r, 2, bytes.clone()).0)] {
                let malformed = label.starts_with("truncated");
                let is_err_in = (scmp.first().map(|t| *t < 128).unwrap_or(false) && scmp.len() >= 4) || malformed;
                let label2 = match action {
                    LocalAsRoutingAction::IngressSCMPHandleRequest { .. } => "scmp-request-handling",
                    LocalAsRoutingAction::ForwardLocal => "forward-local",
                    _ => "send-scmp-error",
                };
                // an error must never be answered; a malformed request is judged at the request handler only
                if !is_err_in && label2 != "scmp-request-handling" {
                    continue;
                }
                let mut v2 = view_of(&bytes).unwrap();
                match catch(|| sim.handle_local_routing_action(action, &mut v2)) {
                    Err(p) => m.violation(format!("panic:pocketscion-scmp:{}", p.site()), p.0, replay.clone()),
                    Ok(Ok(Some(_))) => m.violation(format!("pocketscion:reply-to:{label}:{label2}"), "the simulator produced a reply", replay.clone()),
                    Ok(_) => {}
                }
            }
        }
    });
    let sock_rule = crate::sock::run_part(args, mon, if thorough { 6_000 * scale } else { 400 * scale });
    mon.sample_labeled("parts", || json!(["sciparse-model (5 error kinds)", "pocketscion send-scmp-error / forward-local", "echo (DefaultEchoHandler, pocketscion router)", "no-reply (errors quoting echo requests / errors, unknown types, non-requests, bad checksums, truncations)"]));
    (
        format!("{n} offending packets (0..9216 B, IPv4/IPv6 hosts, empty and standard paths of 1-15 hop fields at their last hop) x all 5 SCMP error kinds built through ScionScmpPacket over the reversed path, through pocketscion's LocalNetworkSimulation (SendSCMPErrorResponse with each kind, ForwardLocal into an AS without receivers) and echo requests (random id/seq/0-300 B data; one in five over a completed one-hop path, to be answered over the two-hop standard path in the opposite direction) through DefaultEchoHandler and the simulator's router; plus per case ~20 packets that must stay unanswered (every error type quoting an echo request, an error quoting an error, unknown error types, echo replies / traceroute replies / unknown informational types, echo requests with a wrong checksum, truncated SCMP). Every produced packet is decoded by the reference: length <= 1232, quote is a prefix of the offender, checksum, type; echo replies mirror id/seq/data, swap addresses and carry the reference-reversed path. distinct = (origin, type, fully quoted?, at the size limit?, path type, address lengths), quiet-packet labels and, for the socket part, packet kinds seen per mode and kind adjacencies. {sock_rule}"),
        vec![
            "trusted: refscion's decoder, RFC1071 checksum over the SCION pseudo header, path reversal and SCMP layout table",
            "socket part: the underlay is an in-memory channel (hook socket_over_channel), not the UDP/SNAP underlays; every injected packet decodes as a SCION packet (the underlay contract); a receive call still pending 30 s after the sentinel datagram was injected is reported as stuck",
        ],
    )
}
