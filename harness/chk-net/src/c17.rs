//! C17 — tunnel reassembly emits only intact packets, at most once, in any frame order.
//!
//! Oracle: a coverage / provenance model over uniquely tagged bytes. Every byte the honest sender
//! puts into packet `k` at position `p` is `tag(k, p)`, so an emitted byte names its source. For
//! every stream offset the model keeps what was received where; an emitted packet must be covered
//! position by position by bytes received in frames of that same stream offset; with an honest
//! sender it must equal the sent packet and be emitted at most once; a packet whose frames all
//! arrived while fewer than Q other multi-frame packets were started in between must be emitted.
//! Also: no panic on arbitrary frames, live heap bytes flat after warm-up (counting allocator).

use std::collections::{BTreeMap, BTreeSet};

use anapaya_edge_tun::fragmenting::{Defragmenter, Fragmenter, MAX_MTU, MIN_MTU, proto::FragmentFrameHeader};
use serde_json::json;
use vmon::{Args, Mon, Rng, catch, hex, par_run};

fn tag(k: u64, p: usize) -> u8 {
    let x = (k.wrapping_mul(0x9E3779B97F4A7C15) ^ (p as u64).wrapping_mul(0xC2B2AE3D27D4EB4F)).wrapping_mul(0x165667B19E3779F9);
    (x >> 29) as u8
}

fn make_packet(k: u64, len: usize) -> Vec<u8> {
    (0..len).map(|p| tag(k, p)).collect()
}

#[derive(Default)]
struct Model {
    /// stream offset → frames received for it: (frame offset, fragment bytes)
    seen: BTreeMap<u64, Vec<(usize, Vec<u8>)>>,
    /// stream offset → sent packet (honest sender)
    sent: BTreeMap<u64, Vec<u8>>,
    /// stream offset → frame offsets the honest sender produced for it
    sent_frames: BTreeMap<u64, BTreeSet<u16>>,
    /// stream offset → frame offsets delivered since the packet was last emitted
    since_emit: BTreeMap<u64, BTreeSet<u16>>,
    emitted: BTreeMap<u64, usize>,
}

impl Model {
    fn note_frame(&mut self, frame: &[u8]) {
        if frame.len() < FragmentFrameHeader::SIZE {
            return;
        }
        let h = FragmentFrameHeader::from_slice_unchecked(frame);
        self.seen.entry(h.stream_offset).or_default().push((h.frame_offset as usize, frame[FragmentFrameHeader::SIZE..].to_vec()));
        self.since_emit.entry(h.stream_offset).or_default().insert(h.frame_offset);
    }

    /// first position of `payload` that no frame of this stream offset delivered with that value
    fn first_uncovered(&self, so: u64, payload: &[u8]) -> Option<usize> {
        let mut covered = vec![false; payload.len()];
        for (off, bytes) in self.seen.get(&so).map(|v| v.as_slice()).unwrap_or(&[]) {
            for (i, b) in bytes.iter().enumerate() {
                if off + i < payload.len() && payload[off + i] == *b {
                    covered[off + i] = true;
                }
            }
        }
        covered.iter().position(|c| !c)
    }
}

struct Ctx<'a> {
    model: Model,
    defrag: Defragmenter,
    mon: &'a mut Mon,
    history: Vec<String>,
    honest: bool,
    info: serde_json::Value,
}

impl Ctx<'_> {
    /// deliver one frame to the real defragmenter and judge what comes out
    fn deliver(&mut self, frame: &[u8]) -> bool {
        self.mon.eval();
        self.mon.count("frames");
        self.model.note_frame(frame);
        if self.history.len() < 40 {
            self.history.push(hex(&frame[..frame.len().min(FragmentFrameHeader::SIZE)]) + &format!("+{}", frame.len().saturating_sub(FragmentFrameHeader::SIZE)));
        }
        let out = catch(|| self.defrag.recv(frame).map(|p| p.map(|p| (p.stream_offset, p.payload.to_vec()))));
        let rj = |hist: &Vec<String>, info: &serde_json::Value, extra: serde_json::Value| json!({"case": info, "frames_so_far": hist, "detail": extra});
        match out {
            Err(pn) => {
                self.mon.violation(format!("panic:Defragmenter::recv:{}", pn.site()), pn.0, rj(&self.history, &self.info, json!(null)));
                false
            }
            Ok(Err(_)) => {
                self.mon.count("rejected_frames");
                false
            }
            Ok(Ok(None)) => false,
            Ok(Ok(Some((so, payload)))) => {
                self.mon.count("emitted");
                // provenance: every byte must have been received at that position of that stream
                // offset
                let bad_at = self.model.first_uncovered(so, &payload);
                if let Some(i) = bad_at {
                    self.mon.violation(
                        "emitted-bytes-never-received",
                        format!("packet at stream offset {so} ({} bytes) emitted although byte {i} was never received in a frame of this packet", payload.len()),
                        rj(&self.history, &self.info, json!({"stream_offset": so, "len": payload.len(), "first_uncovered": i})),
                    );
                }
                if self.honest {
                    match self.model.sent.get(&so) {
                        Some(p) if *p == payload => {}
                        Some(p) => self.mon.violation("emitted-differs-from-sent", format!("stream offset {so}: emitted {} bytes, sent {} bytes", payload.len(), p.len()), rj(&self.history, &self.info, json!({"stream_offset": so}))),
                        None => self.mon.violation("emitted-unknown-packet", format!("stream offset {so} was never sent"), rj(&self.history, &self.info, json!({"stream_offset": so}))),
                    }
                    let n = self.model.emitted.entry(so).or_default();
                    *n += 1;
                    let redelivered = match (self.model.sent_frames.get(&so), self.model.since_emit.get(&so)) {
                        (Some(all), Some(since)) => all.is_subset(since),
                        _ => false,
                    };
                    if *n > 1 {
                        let sig = match (redelivered, frame_is_single(frame)) {
                            (true, true) => "emitted-twice:single-frame-packet-redelivered",
                            (true, false) => "emitted-twice:multi-frame-packet-all-frames-redelivered",
                            (false, _) => "emitted-twice:without-full-redelivery",
                        };
                        self.mon.violation(sig, format!("packet at stream offset {so} emitted {} times", *n), rj(&self.history, &self.info, json!({"stream_offset": so})));
                    }
                    self.model.since_emit.remove(&so);
                }
                true
            }
        }
    }
}

fn frame_is_single(frame: &[u8]) -> bool {
    if frame.len() < FragmentFrameHeader::SIZE {
        return false;
    }
    let h = FragmentFrameHeader::from_slice_unchecked(frame);
    h.is_last() && h.frame_offset == 0
}

fn fragment(f: &mut Fragmenter, data: &[u8]) -> (u64, Vec<Vec<u8>>) {
    let mut frames = vec![];
    let so = f.send(data, |fr| frames.push(fr.to_vec())).expect("valid packet");
    (so, frames)
}

/// honest sender, arbitrary delivery schedule of the frames of `packets`
fn honest_case(r: &mut Rng, q: usize, mtu: usize, sizes: &[usize], schedule: u8, mon: &mut Mon, info: serde_json::Value) {
    let mut f = Fragmenter::new_unobserved(mtu);
    let mut ctx = Ctx { model: Model::default(), defrag: Defragmenter::new_unobserved(q), mon, history: vec![], honest: true, info };
    let mut all: Vec<(u64, Vec<u8>)> = vec![]; // (stream offset, frame)
    let mut by_packet: Vec<(u64, usize)> = vec![];
    for (k, sz) in sizes.iter().enumerate() {
        let data = make_packet(k as u64 + 1 + r.below(1 << 40) * 0, *sz);
        let (so, frames) = fragment(&mut f, &data);
        ctx.model.sent.insert(so, data);
        ctx.model.sent_frames.insert(so, frames.iter().map(|f| FragmentFrameHeader::from_slice_unchecked(f).frame_offset).collect());
        by_packet.push((so, frames.len()));
        for fr in frames {
            all.push((so, fr));
        }
    }
    let mut dropped: BTreeSet<u64> = BTreeSet::new();
    let mut order: Vec<usize> = (0..all.len()).collect();
    match schedule % 6 {
        0 => {}
        1 => order.reverse(),
        2 => r.shuffle(&mut order),
        3 => {
            // shuffle + duplicates
            r.shuffle(&mut order);
            let extra: Vec<usize> = (0..order.len() / 2 + 1).map(|_| order[r.usize(order.len())]).collect();
            for e in extra {
                let at = r.usize(order.len() + 1);
                order.insert(at, e);
            }
        }
        4 => {
            // shuffle + drop one frame of one packet (that packet must then not be emitted)
            r.shuffle(&mut order);
            let victim = r.usize(order.len());
            dropped.insert(all[order[victim]].0);
            order.remove(victim);
        }
        _ => {
            // interleave round-robin across packets
            order.sort_by_key(|i| {
                let so = all[*i].0;
                let idx_in_packet = all[..*i].iter().filter(|x| x.0 == so).count();
                (idx_in_packet, so)
            });
        }
    }
    // "slot not reclaimed" sufficient condition: with at most Q multi-frame packets in total no
    // queue is ever evicted, so every packet whose frames all arrived must come out
    let multi = by_packet.iter().filter(|p| p.1 > 1).count();
    for i in &order {
        ctx.deliver(&all[*i].1.clone());
    }
    for (so, nframes) in &by_packet {
        let got = ctx.model.emitted.get(so).copied().unwrap_or(0);
        if dropped.contains(so) && *nframes > 0 {
            // a packet missing a frame must never be emitted — covered by the provenance check
            continue;
        }
        if got == 0 && multi <= q {
            ctx.mon.violation(
                "complete-packet-not-emitted",
                format!("all {nframes} frames of the packet at stream offset {so} were delivered ({} multi-frame packets, {q} queues) but it was never emitted", multi),
                json!({"case": ctx.info, "frames": ctx.history}),
            );
        }
    }
    ctx.mon.count("honest_cases");
    ctx.mon.shape(&("honest", schedule % 6, sizes.len(), by_packet.iter().map(|p| p.1.min(5)).collect::<Vec<_>>(), q.min(4)));
}

/// hostile structured frames into a defragmenter that just handled honest traffic
fn hostile_case(r: &mut Rng, q: usize, mon: &mut Mon, info: serde_json::Value) {
    let mtu = *r.pick(&[MIN_MTU, MIN_MTU + 1, 600, 1400, MAX_MTU]);
    let w = mtu - FragmentFrameHeader::SIZE;
    let mut f = Fragmenter::new_unobserved(mtu);
    let mut ctx = Ctx { model: Model::default(), defrag: Defragmenter::new_unobserved(q), mon, history: vec![], honest: false, info };
    // warm the slots with honest multi-frame packets (fills the assembly buffers with old bytes)
    for k in 0..q + 1 {
        let data = make_packet(1000 + k as u64, w * 2 + 10);
        let (_, frames) = fragment(&mut f, &data);
        for fr in frames {
            ctx.deliver(&fr);
        }
    }
    let mk = |so: u64, off: u16, last: bool, len: usize, fill: u64| -> Vec<u8> {
        let mut v = vec![0u8; FragmentFrameHeader::SIZE + len];
        FragmentFrameHeader { stream_offset: so, frame_offset: off, flags: if last { 1 << 15 } else { 0 } }.copy_to_slice(&mut v[..FragmentFrameHeader::SIZE]);
        for i in 0..len {
            v[FragmentFrameHeader::SIZE + i] = tag(fill, off as usize + i);
        }
        v
    };
    let n = r.range(2, 8);
    let so = 1_000_000 + r.below(1000) * 100_000;
    for step in 0..n {
        let kind = r.below(10);
        let frame = match kind {
            // a frame larger than any packet (fragment of 64 KiB and more), LAST or not
            9 => {
                let off = *r.pick(&[0usize, w, 2 * w, 10, 65535 - w]);
                let len = *r.pick(&[65536usize, 65537, 65536 + 10, 65536 + w, 65536 + 2 * w, 70_000, 131_072]);
                mk(so, off as u16, r.bool(), len, 7)
            }
            // LAST at k·W with a short tail
            0 => mk(so, (w * r.range(1, 4) as usize).min(65000) as u16, true, r.range(0, 20) as usize, 7),
            // middle frame beyond the announced end
            1 => mk(so, (w * r.range(2, 9) as usize).min(65000) as u16, false, w, 7),
            // proper middle frame
            2 => mk(so, (w * r.range(0, 3) as usize) as u16, false, w, 7),
            // inconsistent window
            3 => mk(so, (w * r.range(0, 3) as usize) as u16, false, w + *r.pick(&[1usize, 16, 100]), 7),
            // empty fragment
            4 => mk(so, r.u16(), r.bool(), 0, 7),
            // offsets near the end of the buffer
            5 => mk(so, *r.pick(&[65535u16, 65534, 65000, 65535 - w as u16]), r.bool(), r.range(0, w as u64 + 2) as usize, 7),
            // other stream offset (older / newer)
            6 => mk(*r.pick(&[0u64, 1, so - 1, so + 1, u64::MAX, u64::MAX - 1]), (w * r.range(0, 2) as usize) as u16, r.bool(), w, 9),
            // truncated header / random bytes
            7 => r.bytes_upto(40),
            _ => {
                let mut v = r.bytes_upto(200);
                if v.len() >= 12 {
                    v[10] &= 0x80;
                }
                v
            }
        };
        ctx.mon.shape(&("hostile", kind, step.min(3)));
        ctx.deliver(&frame);
    }
    ctx.mon.count("hostile_cases");
}

pub fn run(args: &Args, mon: &mut Mon) -> (String, Vec<&'static str>) {
    mon.floor("honest_cases", 500);
    mon.floor("hostile_cases", 500);
    mon.floor("emitted", 500);
    mon.floor("rejected_frames", 100);
    let thorough = args.thorough();
    let scale = args.param_u64("scale", 1);
    let seed = args.seed;

    // ---- honest sender: boundary-directed sizes × MTUs × schedules
    let w_min = MIN_MTU - FragmentFrameHeader::SIZE;
    let mtus = [MIN_MTU, MIN_MTU + 1, 576, 1280, 1400, MAX_MTU, MAX_MTU + 100, 0];
    let n_honest: u64 = if thorough { 200_000 * scale } else { 20_000 * scale };
    par_run(mon, args.threads, n_honest, |i, m| {
        if !args.mine(i) {
            return;
        }
        let mut r = Rng::fork(seed, 0x1700_0000 + i);
        let mtu = *r.pick(&mtus);
        let eff = mtu.clamp(MIN_MTU, MAX_MTU) - FragmentFrameHeader::SIZE;
        let q = *r.pick(&[1usize, 2, 3, 4, 8]);
        let npk = r.range(1, (q as u64 + 1).min(4)) as usize;
        let sizes: Vec<usize> = (0..npk)
            .map(|_| match r.below(9) {
                0 => 1,
                1 => eff - 1,
                2 => eff,
                3 => eff + 1,
                4 => eff * 2,
                5 => eff * 3 + 1,
                6 => 65535,
                7 => (eff * r.range(1, 4) as usize + r.usize(eff)).min(65535),
                _ => r.range(1, 65535) as usize,
            })
            .collect();
        let schedule = (i % 6) as u8;
        honest_case(&mut r, q, mtu, &sizes, schedule, m, json!({"seed": seed, "index": i, "mtu": mtu, "queues": q, "sizes": sizes, "schedule": schedule}));
    });
    // exhaustive permutations (and one duplicated frame) for 2 packets × ≤3 frames
    {
        let eff = w_min;
        let shapes = [[eff * 2 + 5, eff * 2], [eff * 3, 7], [eff + 1, eff + 1], [eff * 3 - 1, eff * 2 + 1]];
        for (si, sh) in shapes.iter().enumerate() {
            let mut f = Fragmenter::new_unobserved(MIN_MTU);
            let mut frames: Vec<Vec<u8>> = vec![];
            let mut sent: BTreeMap<u64, Vec<u8>> = BTreeMap::new();
            let mut sent_frames: BTreeMap<u64, BTreeSet<u16>> = BTreeMap::new();
            for (k, sz) in sh.iter().enumerate() {
                let data = make_packet(50 + k as u64, *sz);
                let (so, fr) = fragment(&mut f, &data);
                sent.insert(so, data);
                sent_frames.insert(so, fr.iter().map(|f| FragmentFrameHeader::from_slice_unchecked(f).frame_offset).collect::<BTreeSet<u16>>());
                frames.extend(fr);
            }
            let n = frames.len();
            let mut perm: Vec<usize> = (0..n).collect();
            let mut count = 0u64;
            // Heap's algorithm
            let mut c = vec![0usize; n];
            let run_perm = |perm: &Vec<usize>, dup: Option<usize>, mon: &mut Mon| {
                let mut ctx = Ctx { model: Model::default(), defrag: Defragmenter::new_unobserved(2), mon, history: vec![], honest: true, info: json!({"exhaustive_shape": si, "perm": perm, "dup": dup}) };
                ctx.model.sent = sent.clone();
                ctx.model.sent_frames = sent_frames.clone();
                for (pos, i) in perm.iter().enumerate() {
                    ctx.deliver(&frames[*i].clone());
                    if dup == Some(pos) {
                        ctx.deliver(&frames[*i].clone());
                    }
                }
                for so in sent.keys() {
                    if ctx.model.emitted.get(so).copied().unwrap_or(0) == 0 {
                        ctx.mon.violation("complete-packet-not-emitted", format!("exhaustive schedule {perm:?}: packet {so} not emitted"), json!({"case": ctx.info}));
                    }
                }
                ctx.mon.count("exhaustive_schedules");
            };
            run_perm(&perm, None, mon);
            let mut i = 0;
            while i < n {
                if c[i] < i {
                    if i % 2 == 0 { perm.swap(0, i) } else { perm.swap(c[i], i) }
                    count += 1;
                    run_perm(&perm, None, mon);
                    if count % 7 == 0 {
                        run_perm(&perm, Some((count as usize) % n), mon);
                    }
                    c[i] += 1;
                    i = 0;
                } else {
                    c[i] = 0;
                    i += 1;
                }
            }
        }
    }
    // ---- hostile frames
    let n_hostile: u64 = if thorough { 400_000 * scale } else { 40_000 * scale };
    par_run(mon, args.threads, n_hostile, |i, m| {
        if !args.mine(i) {
            return;
        }
        let mut r = Rng::fork(seed, 0x1780_0000 + i);
        let q = *r.pick(&[1usize, 2, 4]);
        hostile_case(&mut r, q, m, json!({"seed": seed, "hostile_index": i, "queues": q}));
    });
    // the two structured attacks named in the design, verbatim
    {
        let w = w_min;
        let mut ctx = Ctx { model: Model::default(), defrag: Defragmenter::new_unobserved(1), mon, history: vec![], honest: false, info: json!({"case": "stale-slot"}) };
        let mut f = Fragmenter::new_unobserved(MIN_MTU);
        let data = vec![0xAAu8; w * 2];
        let (_, frames) = fragment(&mut f, &data);
        for fr in frames {
            ctx.deliver(&fr);
        }
        let mk = |so: u64, off: u16, last: bool, len: usize| -> Vec<u8> {
            let mut v = vec![0x11u8; FragmentFrameHeader::SIZE + len];
            FragmentFrameHeader { stream_offset: so, frame_offset: off, flags: if last { 1 << 15 } else { 0 } }.copy_to_slice(&mut v[..FragmentFrameHeader::SIZE]);
            v
        };
        ctx.deliver(&mk(5000, w as u16, true, 10));
        ctx.deliver(&mk(5000, (5 * w) as u16, false, w));
    }
    // ---- memory plateau: live heap after warm-up stays flat over many frames
    {
        let mut d = Defragmenter::new_unobserved(4);
        let mut f = Fragmenter::new_unobserved(1400);
        let mut r = Rng::fork(seed, 0x17aa);
        let mut feed = |d: &mut Defragmenter, n: usize, r: &mut Rng| {
            for k in 0..n {
                let data = make_packet(k as u64, r.range(1, 9000) as usize);
                let mut frames = vec![];
                let _ = f.send(&data, |fr| frames.push(fr.to_vec()));
                r.shuffle(&mut frames);
                for fr in &frames {
                    let _ = d.recv(fr);
                }
                let junk = r.bytes_upto(60);
                let _ = d.recv(&junk);
            }
        };
        feed(&mut d, 200, &mut r);
        let before = vmon::alloc::live_bytes();
        feed(&mut d, if thorough { 20_000 } else { 3_000 }, &mut r);
        let after = vmon::alloc::live_bytes();
        mon.note("live_heap_bytes_before_after", json!([before, after]));
        mon.eval();
        // the harness's own temporaries are freed inside `feed`; allow a small slack
        if after - before > 64 * 1024 {
            mon.violation("reassembler-memory-grows", format!("live heap grew from {before} to {after} bytes while feeding frames"), json!({"before": before, "after": after}));
        }
        mon.count("plateau_runs");
    }
    mon.sample_labeled("honest", || json!({"mtu": MIN_MTU, "queues": 2, "sizes": [w_min * 2 + 5, w_min * 2], "schedule": "all permutations"}));
    mon.sample_labeled("hostile", || json!({"frames": ["LAST at offset W (len 10)", "middle frame at 5·W"], "after": "honest 2-frame 0xAA packet, 1 queue"}));

    (
        format!("{n_honest} honest cases: real Fragmenter output for boundary-directed packet sizes (1, W-1, W, W+1, 2W, 3W+1, 65535, random) x MTUs (MIN, MIN+1, 576, 1280, 1400, MAX, out of range) x 1..4 packets x 1..8 queues under 6 schedules (in order, reversed, shuffled, shuffled+duplicates, shuffled+one frame dropped, round-robin interleaving); all permutations (plus sampled duplicates) of the frames of 4 two-packet shapes with <=3 frames each; {n_hostile} hostile sequences of structured frames (LAST at k·W with short tail, middle frames beyond the announced end, inconsistent windows, empty fragments, offsets near 65535, frames of 64 KiB and more, foreign stream offsets, truncated/random headers) into slots warmed by honest traffic; allocation plateau run. distinct = distinct (schedule, packet/frame-count shape, queue count) and hostile frame-kind sequences."),
        vec![
            "provenance model over tagged bytes: an emitted byte must have been received at that position in a frame carrying the same stream offset",
            "'must be emitted' is only asserted when the number of multi-frame packets in the case does not exceed the number of queues (no eviction possible)",
            "memory: live heap bytes (counting global allocator) may not grow by more than 64 KiB across the plateau run",
        ],
    )
}
