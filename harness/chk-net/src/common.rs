//! reference topology → pocketscion topology
use pocketscion::network::scion::topology::{ScionAs, ScionLink, ScionLinkType, ScionTopology, ScionTopologyBuilder};
use refscion::topo::{LinkKind, RTopo};
use sciparse::identifier::isd_asn::IsdAsn;

pub fn ia(t: &RTopo, a: usize) -> IsdAsn {
    IsdAsn::from_u64(t.ases[a].ia())
}

pub fn to_pocketscion(t: &RTopo) -> anyhow::Result<ScionTopology> {
    let mut b = ScionTopologyBuilder::new();
    for (i, a) in t.ases.iter().enumerate() {
        let s = if a.core { ScionAs::new_core(ia(t, i)) } else { ScionAs::new(ia(t, i)) };
        b.add_as(s.with_forwarding_key(a.key))?;
    }
    for l in &t.links {
        let kind = match l.kind {
            LinkKind::Core => ScionLinkType::Core,
            LinkKind::ParentChild => ScionLinkType::Parent,
            LinkKind::Peer => ScionLinkType::Peer,
        };
        let mut link = ScionLink::new(ia(t, l.a), l.a_if, kind, ia(t, l.b), l.b_if)?;
        link.set_is_up(l.up);
        b.add_link(link)?;
    }
    b.build()
}

pub fn topo_json(t: &RTopo) -> serde_json::Value {
    serde_json::json!({
        "ases": t.ases.iter().map(|a| format!("{}-{:x}{}", a.isd, a.asn, if a.core { " core" } else { "" })).collect::<Vec<_>>(),
        "links": t.links.iter().map(|l| format!("{}#{} {:?} {}#{}{}", l.a, l.a_if, l.kind, l.b, l.b_if, if l.up { "" } else { " DOWN" })).collect::<Vec<_>>(),
    })
}
