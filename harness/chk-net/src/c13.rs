//! C13 — the simulated dataplane enforces SCION forwarding rules and matches a reference router.
//!
//! For every packet the real `ScionNetworkSim::<SpecRoutingLogic>` iterator is stepped to its
//! verdict (counting AS steps) and compared with the reference router's walk over the same
//! topology state: delivered where / rejected at which AS / error class. The reference evaluates
//! all rules without short-circuit; the simulator's SCMP error class must be one of the violated
//! rules at that AS (a silent drop counts as a refusal for any violated rule).
//!
//! Packets: authentic paths (reference beaconing + combination, spec-authentic MACs incl.
//! peering), clock before/after expiry, each traversed link down, single-bit corruptions of hop
//! fields / info fields / pointers, attacker splices (segments of different authentic paths
//! recombined in every order: valleys, core loops, mixed segments), injection at every hop of the
//! path and at wrong ASes / interfaces.

use pocketscion::network::scion::{
    routing::{AsRoutingAction, LocalAsRoutingAction, ScionNetworkTime, spec::SpecRoutingLogic},
    simulator::ScionNetworkSim,
    topology::ScionTopology,
};
use refbridge::{beacon, gen_topology};
use refscion::{
    combine::{self, RPathDesc},
    router::{self, Rule, WalkEnd},
    topo::RTopo,
    wire::{RPacket, RPath, RStdPath},
};
use sciparse::{
    core::view::View,
    packet::view::ScionRawPacketView,
    payload::scmp::{
        model::ScmpErrorMessage,
        types::ScmpParameterProblemCode as PC,
    },
};
use serde_json::json;
use vmon::{Args, Mon, Rng, catch, hex, par_run};

use crate::common::{ia, to_pocketscion, topo_json};

#[derive(Debug, Clone, PartialEq, Eq)]
pub enum SimEnd {
    Delivered { at: u64 },
    Error { at: u64, class: String },
    Dropped { at: u64 },
    Other(String),
    TooManySteps(usize),
}

fn packet_bytes(t: &RTopo, s: usize, d: usize, dp: &RStdPath) -> Vec<u8> {
    packet_bytes_with(t, s, d, RPath::Standard(dp.clone()))
}

fn packet_bytes_with(t: &RTopo, s: usize, d: usize, path: RPath) -> Vec<u8> {
    let path_type = match &path {
        RPath::Empty => 0,
        RPath::Standard(_) => 1,
        RPath::OneHop { .. } => 2,
        RPath::Opaque { path_type, .. } => *path_type,
    };
    let mut p = RPacket {
        version: 0,
        traffic_class: 0,
        flow_id: 1,
        next_hdr: 17,
        hdr_len_units: 0,
        payload_len: 0,
        path_type,
        dt: 0,
        dl: 0,
        st: 0,
        sl: 0,
        rsv: 0,
        dst_ia: t.ases[d].ia(),
        src_ia: t.ases[s].ia(),
        dst_host: vec![10, 0, 0, 2],
        src_host: vec![10, 0, 0, 1],
        path,
        payload: vec![0, 1, 0, 2, 0, 12, 0, 0, 1, 2, 3, 4],
        trailing: 0,
    };
    p.fix_lengths().expect("representable");
    p.encode()
}

fn class_of(err: &ScmpErrorMessage) -> String {
    match err {
        ScmpErrorMessage::ParameterProblem(p) => match p.code {
            PC::InvalidHopFieldMac => "mac".into(),
            PC::PathExpired => "expired".into(),
            PC::UnknownHopFieldConsIngressInterface | PC::UnknownHopFieldConsEgressInterface => "interface".into(),
            PC::InvalidSegmentChange => "segment-change".into(),
            PC::NonLocalDelivery => "non-local".into(),
            PC::InvalidPath => "invalid-path".into(),
            PC::ErroneousHeaderField => "header-field".into(),
            other => format!("param:{other:?}"),
        },
        ScmpErrorMessage::ExternalInterfaceDown(_) => "if-down".into(),
        ScmpErrorMessage::InternalConnectivityDown(_) => "conn-down".into(),
        ScmpErrorMessage::DestinationUnreachable(_) => "unreachable".into(),
        ScmpErrorMessage::PacketTooBig(_) => "too-big".into(),
    }
}

/// which reference rules a simulator error class may stand for
fn class_covers(class: &str, rule: &Rule) -> bool {
    use Rule::*;
    match class {
        "mac" => matches!(rule, HopMac | XoverHopMac),
        "expired" => matches!(rule, HopExpired | XoverHopExpired),
        "interface" => matches!(rule, IngressInterface | EgressUnknown),
        "segment-change" => matches!(rule, LinkTypesSegmentChange | LinkTypesInSegment | XoverFromInside | PeeringShape),
        "non-local" => matches!(rule, NonLocalDelivery | DestinationNotAtEnd),
        "invalid-path" | "header-field" => matches!(rule, Malformed | SingleHopSegment | PeeringShape | XoverFromInside),
        "if-down" => matches!(rule, EgressDown),
        _ => false,
    }
}

pub fn run_sim(topo: &ScionTopology, t: &RTopo, bytes: &mut [u8], start_as: usize, start_if: u16, now: u32) -> Result<(SimEnd, usize), vmon::Panic> {
    catch(|| {
        let (view, _) = match ScionRawPacketView::try_from_mut_slice(bytes) {
            Ok(v) => v,
            Err(e) => return (SimEnd::Other(format!("unparseable: {e}")), 0),
        };
        let it = match ScionNetworkSim::iter::<SpecRoutingLogic>(topo, view, ScionNetworkTime::from_timestamp_secs(now), ia(t, start_as), start_if, false) {
            Ok(i) => i,
            Err(e) => return (SimEnd::Other(format!("iter: {e}")), 0),
        };
        let mut steps = 0usize;
        let mut last = None;
        for out in it {
            steps += 1;
            if steps > 200 {
                return (SimEnd::TooManySteps(steps), steps);
            }
            match out {
                Ok(o) => last = Some(o),
                Err(e) => return (SimEnd::Other(format!("step error: {e:#}")), steps),
            }
        }
        let Some(o) = last else { return (SimEnd::Other("no step".into()), steps) };
        let at = o.at_as.to_u64();
        let end = match o.action {
            AsRoutingAction::Local(LocalAsRoutingAction::ForwardLocal) => SimEnd::Delivered { at },
            AsRoutingAction::Local(LocalAsRoutingAction::SendSCMPErrorResponse(e)) => SimEnd::Error { at, class: class_of(&e) },
            AsRoutingAction::Drop => SimEnd::Dropped { at },
            other => SimEnd::Other(format!("{other:?}")),
        };
        (end, steps)
    })
}

fn path_class(dp: &RStdPath) -> &'static str {
    if dp.infos.iter().any(|i| i.peer()) {
        "peer"
    } else {
        match dp.n_segments() {
            1 => "one-segment",
            2 => "two-segment",
            _ => "three-segment",
        }
    }
}

/// Compare one packet. `family` names the workload family for signatures.
#[allow(clippy::too_many_arguments)]
pub fn compare(topo: &ScionTopology, t: &RTopo, s: usize, d: usize, dp: &RStdPath, start_as: usize, start_if: u16, now: u32, family: &str, shortcutish: bool, mon: &mut Mon, info: &serde_json::Value) {
    // hop fields stamped in the future are outside the compared family (see assumptions)
    if dp.infos.iter().any(|i| i.timestamp > now) {
        mon.count("skipped_future_timestamp");
        return;
    }
    mon.eval();
    mon.count("packets");
    mon.count(&format!("family:{family}"));
    let mut bytes = packet_bytes(t, s, d, dp);
    let orig = bytes.clone();
    let rj = |extra: serde_json::Value| {
        let mut v = info.clone();
        v["family"] = json!(family);
        v["packet"] = json!(hex(&orig));
        v["inject"] = json!({"as": start_as, "if": start_if, "now": now});
        v["detail"] = extra;
        v
    };
    let (sim, steps) = match run_sim(topo, t, &mut bytes, start_as, start_if, now) {
        Ok(x) => x,
        Err(pn) => {
            mon.violation(format!("panic:simulator:{}", pn.site()), pn.0, rj(json!(null)));
            return;
        }
    };
    let mut rdp = dp.clone();
    let reference = router::walk_from(t, start_as, start_if, &mut rdp, t.ases[d].ia(), now);
    let nh = RStdPath::n_hops(dp.seg_len);
    if steps > nh + 1 {
        mon.violation("too-many-as-steps", format!("{steps} AS steps for a path with {nh} hop fields"), rj(json!(null)));
    }
    let pc = path_class(dp);
    let cls = if shortcutish && pc == "two-segment" { "shortcut" } else { pc };
    let agree = match (&sim, &reference) {
        (SimEnd::Delivered { at }, WalkEnd::Delivered { at: rat, .. }) => *at == t.ases[*rat].ia(),
        (SimEnd::Error { at, class }, WalkEnd::Rejected { at: rat, rules, .. }) => *at == t.ases[*rat].ia() && rules.iter().any(|r| class_covers(class, r)),
        (SimEnd::Dropped { at }, WalkEnd::Rejected { at: rat, .. }) => *at == t.ases[*rat].ia(),
        _ => false,
    };
    let sim_s = match &sim {
        SimEnd::Delivered { .. } => "delivered".to_string(),
        SimEnd::Error { class, .. } => format!("error:{class}"),
        SimEnd::Dropped { .. } => "dropped".to_string(),
        SimEnd::Other(_) => "other".to_string(),
        SimEnd::TooManySteps(_) => "too-many-steps".to_string(),
    };
    let ref_s = match &reference {
        WalkEnd::Delivered { .. } => "delivered".to_string(),
        WalkEnd::Rejected { rules, .. } => format!("rejected:{}", rules.iter().map(|r| format!("{r:?}")).collect::<Vec<_>>().join("+")),
        WalkEnd::TooLong => "too-long".to_string(),
    };
    mon.shape(&(family, cls, sim_s.as_str(), ref_s.as_str()));
    if agree {
        mon.count("agreements");
        if matches!(sim, SimEnd::Delivered { .. }) {
            mon.count("delivered_both");
        } else {
            mon.count("refused_both");
        }
        // local delivery only in the destination AS
        if let SimEnd::Delivered { at } = &sim {
            if *at != t.ases[d].ia() {
                mon.violation("delivered-outside-destination-as", format!("delivered at {at:x}, destination is {:x}", t.ases[d].ia()), rj(json!(null)));
            }
        }
    } else {
        // where exactly do they differ?
        let where_ = match (&sim, &reference) {
            (SimEnd::Error { at, .. } | SimEnd::Dropped { at }, WalkEnd::Rejected { at: rat, .. }) if *at != t.ases[*rat].ia() => "other-as",
            _ => "verdict",
        };
        // packets of two input classes are refused wholesale by the simulator (see DESIGN.md /
        // known_findings.json): paths with the peering flag, and cross-overs into a hop field
        // that lies in the middle of its segment (shortcut / on-path joins)
        let xover_mid = (0..dp.n_segments().saturating_sub(1)).any(|s| {
            let first_next = dp.seg_range(s + 1).start;
            let inf = &dp.infos[s + 1];
            let h = &dp.hops[first_next];
            let travel_in = if inf.cons_dir() { h.cons_in } else { h.cons_eg };
            !inf.peer() && travel_in != 0
        });
        // a packet arriving from a neighbour AS at a hop field that names no ingress interface
        // (the source hop of a path): the simulator skips the ingress check when the hop field's
        // ingress is 0
        let ext_at_source_hop = start_if != 0 && (dp.curr_hf as usize) < dp.hops.len() && {
            let ci = dp.segment_of(dp.curr_hf as usize).unwrap_or(0);
            let h = &dp.hops[dp.curr_hf as usize];
            let tin = if dp.infos.get(ci).map(|i| i.cons_dir()).unwrap_or(true) { h.cons_in } else { h.cons_eg };
            tin == 0
        };
        if ext_at_source_hop && matches!(&reference, WalkEnd::Rejected { rules, .. } if rules.contains(&Rule::IngressInterface)) && pc != "peer" && !xover_mid {
            mon.violation("verdict-differs:external-packet-at-hop-without-ingress-interface", format!("[{family}] simulator: {sim:?}; reference router: {reference:?}"), rj(json!({"steps": steps})));
            return;
        }
        // both known findings are refusals by the simulator; a packet of these classes that the
        // simulator delivers although the reference refuses it is a different matter
        let sim_refuses = !matches!(&sim, SimEnd::Delivered { .. });
        let sim_interface_error = matches!(&sim, SimEnd::Error { class, .. } if *class == "interface");
        if pc == "peer" && sim_refuses {
            mon.violation("verdict-differs:peering-flag-set", format!("[{family}] simulator: {sim:?}; reference router: {reference:?}"), rj(json!({"steps": steps})));
            return;
        }
        if xover_mid && sim_interface_error {
            mon.violation("verdict-differs:cross-over-into-mid-segment-hop", format!("[{family}] simulator: {sim:?}; reference router: {reference:?}"), rj(json!({"steps": steps})));
            return;
        }
        mon.violation(
            format!("verdict-differs:{family}:{cls}:sim={sim_s}:ref={ref_s}:{where_}"),
            format!("simulator: {sim:?}; reference router: {reference:?}"),
            rj(json!({"steps": steps})),
        );
    }
}

fn flip(dp: &RStdPath, r: &mut Rng) -> (RStdPath, String) {
    let mut bytes = dp.encode();
    let ni = RStdPath::n_infos(dp.seg_len);
    let what;
    let bit;
    match r.below(6) {
        0 => {
            // pointer / meta byte 0
            bit = r.usize(8);
            what = "meta-pointers";
        }
        1 if ni > 0 => {
            let s = r.usize(ni);
            bit = (4 + 8 * s) * 8 + 16 + r.usize(16);
            what = "info-segid";
        }
        2 if ni > 0 => {
            let s = r.usize(ni);
            bit = (4 + 8 * s) * 8 + 32 + r.usize(32);
            what = "info-timestamp";
        }
        3 => {
            let h = r.usize(dp.hops.len());
            bit = (4 + 8 * ni + 12 * h) * 8 + 48 + r.usize(48);
            what = "hop-mac";
        }
        4 => {
            let h = r.usize(dp.hops.len());
            bit = (4 + 8 * ni + 12 * h) * 8 + 16 + r.usize(32);
            what = "hop-interfaces";
        }
        _ => {
            let h = r.usize(dp.hops.len());
            bit = (4 + 8 * ni + 12 * h) * 8 + 8 + r.usize(8);
            what = "hop-exptime";
        }
    }
    bytes[bit / 8] ^= 0x80 >> (bit % 8);
    match RStdPath::decode(&bytes) {
        Some((p, n)) if n == bytes.len() => (p, what.to_string()),
        // the flip changed a segment length: keep the original (rare, only via meta byte)
        _ => (dp.clone(), "noop".to_string()),
    }
}

/// segments of a path as (info, hops)
fn segments(dp: &RStdPath) -> Vec<(refscion::wire::RInfo, Vec<refscion::wire::RHop>)> {
    (0..dp.n_segments()).map(|s| (dp.infos[s].clone(), dp.hops[dp.seg_range(s)].to_vec())).collect()
}


/// which AS of the topology authenticated each hop field of a travel-order segment (the AS whose
/// key reproduces the MAC under the SegID chain); None for foreign/peering hop fields
fn hop_owners(t: &refscion::topo::RTopo, inf: &refscion::wire::RInfo, hops: &[refscion::wire::RHop]) -> Vec<Option<usize>> {
    let cons = inf.flags & 1 == 1;
    let mut beta = inf.seg_id;
    let mut out = vec![];
    for h in hops {
        if !cons {
            beta = refscion::mac::beta_next(beta, &h.mac);
        }
        out.push((0..t.ases.len()).find(|a| refscion::mac::hop_mac(&t.ases[*a].key, beta, inf.timestamp, h.exp, h.cons_in, h.cons_eg) == h.mac));
        if cons {
            beta = refscion::mac::beta_next(beta, &h.mac);
        }
    }
    out
}

/// the hop fields from travel index `j` on, with the SegID advanced over the dropped ones
fn seg_suffix(seg: &(refscion::wire::RInfo, Vec<refscion::wire::RHop>), j: usize) -> (refscion::wire::RInfo, Vec<refscion::wire::RHop>) {
    let mut inf = seg.0.clone();
    for h in &seg.1[..j] {
        inf.seg_id = refscion::mac::beta_next(inf.seg_id, &h.mac);
    }
    (inf, seg.1[j..].to_vec())
}

fn assemble(segs: &[(refscion::wire::RInfo, Vec<refscion::wire::RHop>)]) -> Option<RStdPath> {
    if segs.is_empty() || segs.len() > 3 {
        return None;
    }
    let mut seg_len = [0u8; 3];
    let mut infos = vec![];
    let mut hops = vec![];
    for (i, (inf, hs)) in segs.iter().enumerate() {
        if hs.is_empty() || hs.len() > 63 {
            return None;
        }
        seg_len[i] = hs.len() as u8;
        infos.push(inf.clone());
        hops.extend(hs.iter().cloned());
    }
    if hops.len() > 64 {
        return None;
    }
    Some(RStdPath { curr_inf: 0, curr_hf: 0, rsv: 0, seg_len, infos, hops })
}

pub fn run(args: &Args, mon: &mut Mon) -> (String, Vec<&'static str>) {
    mon.floor("delivered_both", 200);
    mon.floor("refused_both", 200);
    mon.floor("family:splice", 100);
    mon.floor("family:mid-splice", 100);
    mon.floor("family:corrupt", 100);
    mon.floor("family:link-down", 50);
    mon.floor("family:mid-path", 50);
    mon.floor("empty_path_delivered_at_destination", 50);
    mon.floor("onehop_delivered_at_destination", 20);
    mon.floor("misaddressed_refused", 50);
    let thorough = args.thorough();
    let scale = args.param_u64("scale", 1);
    let n_topo: u64 = if thorough { 1500 * scale } else { 100 * scale };
    let replay = args.replay.as_ref().map(|p| {
        let v: serde_json::Value = serde_json::from_str(&std::fs::read_to_string(p).expect("replay")).unwrap();
        (v["seed"].as_u64().unwrap(), v["topology_index"].as_u64().unwrap())
    });
    let (seed, range): (u64, Vec<u64>) = match replay {
        Some((s, i)) => (s, vec![i]),
        None => (args.seed, (0..n_topo).collect()),
    };
    par_run(mon, args.threads, range.len() as u64, |k, m| {
        let i = range[k as usize];
        if !args.mine(i) {
            return;
        }
        let mut r = Rng::fork(seed, 0x1300_0000 + i);
        let size = (i % 10 >= 4) as u8 + (i % 10 >= 9) as u8;
        let (mut t, gp) = gen_topology(&mut r, size);
        let Ok(mut topo) = to_pocketscion(&t) else {
            m.inconclusive("harness: pocketscion refused a generated topology");
            return;
        };
        let base_ts = 1_700_000_000u32;
        let b = beacon(&mut r, &t, 5, true, base_ts, true);
        // segments are stamped in (base-3600, base]; `now` after every timestamp, before every expiry
        // is impossible in general (ExpTime 0 = 337 s), so use constant ExpTime classes per path:
        // the reference computes the expiry and the clock values are placed relative to it.
        let n = t.ases.len();
        let info = json!({"seed": seed, "topology_index": i, "gen": format!("{gp:?}"), "topology": topo_json(&t)});
        let mut all_paths: Vec<(usize, usize, RPathDesc)> = vec![];
        let mut pairs: Vec<(usize, usize)> = (0..n).flat_map(|a| (0..n).map(move |b| (a, b))).filter(|(a, b)| a != b).collect();
        r.shuffle(&mut pairs);
        pairs.truncate(if thorough { 40 } else { 14 });
        for (s, d) in pairs {
            for p in combine::combine(&t, s, d, &b.core_segments, &b.noncore_segments).into_iter().take(if thorough { 8 } else { 4 }) {
                all_paths.push((s, d, p));
            }
        }
        // one-hop and empty paths: whatever the path type, a packet is handed to the local
        // network only in the AS it is addressed to
        for _ in 0..4 {
            let s = r.usize(n);
            let other = (s + 1 + r.usize(n - 1)) % n;
            let links: Vec<(u16, usize)> = t.links.iter().filter(|l| l.up).filter_map(|l| if l.a == s { Some((l.a_if, l.b)) } else if l.b == s { Some((l.b_if, l.a)) } else { None }).collect();
            let mut cases: Vec<(&'static str, RPath, usize, usize)> = vec![("empty:addressed-here", RPath::Empty, s, s), ("empty:addressed-elsewhere", RPath::Empty, other, s)];
            if let Some((eg, nb)) = links.first().copied() {
                let ts = base_ts - 10;
                let beta = r.u16();
                let mk = |dst: usize| {
                    let mac = refscion::mac::hop_mac(&t.ases[s].key, beta, ts, 63, 0, eg);
                    (RPath::OneHop { info: refscion::wire::RInfo { flags: 1, rsv: 0, seg_id: beta, timestamp: ts }, hops: [refscion::wire::RHop { flags: 0, exp: 63, cons_in: 0, cons_eg: eg, mac }, refscion::wire::RHop { flags: 0, exp: 0, cons_in: 0, cons_eg: 0, mac: [0; 6] }] }, dst)
                };
                let third = (0..n).find(|x| *x != s && *x != nb);
                let (p1, d1) = mk(nb);
                cases.push(("onehop:addressed-to-neighbour", p1, d1, nb));
                if let Some(o) = third {
                    let (p2, d2) = mk(o);
                    cases.push(("onehop:addressed-elsewhere", p2, d2, nb));
                }
            }
            for (label, path, dst, _ends_at) in cases {
                let mut bytes = packet_bytes_with(&t, s, dst, path);
                m.eval();
                m.count("family:other-path-types");
                let rj = json!({"case": info, "family": label, "src": s, "dst": dst, "packet": hex(&bytes)});
                match run_sim(&topo, &t, &mut bytes, s, 0, base_ts) {
                    Err(pn) => m.violation(format!("panic:simulator:{}", pn.site()), pn.0, rj),
                    Ok((SimEnd::Delivered { at }, _)) => {
                        m.shape(&("other-path-types", label, "delivered"));
                        if at != t.ases[dst].ia() {
                            m.violation(format!("delivered-outside-destination-as:{}", label.split(':').next().unwrap_or("")), format!("{label}: delivered at {at:x}, destination is {:x}", t.ases[dst].ia()), rj);
                        } else {
                            m.count(if label.starts_with("empty") { "empty_path_delivered_at_destination" } else { "onehop_delivered_at_destination" });
                        }
                    }
                    Ok((SimEnd::TooManySteps(k), _)) => m.violation("more-steps-than-hop-fields", format!("{label}: {k} steps"), rj),
                    Ok((end, _)) => {
                        m.shape(&("other-path-types", label, "not-delivered"));
                        if label.ends_with("elsewhere") {
                            m.count("misaddressed_refused");
                        }
                        let _ = end;
                    }
                }
            }
        }
        for (idx, (s, d, p)) in all_paths.iter().enumerate() {
            let (s, d) = (*s, *d);
            let shortcutish = p.kind.contains("shortcut");
            // latest timestamp among the path's segments: the simulator refuses hop fields
            // stamped in the future, which the reference (like the reference router) does not
            // judge — keep `now` at or after every timestamp.
            let max_ts = p.dp.infos.iter().map(|x| x.timestamp).max().unwrap();
            let now_ok = max_ts + 1;
            let expired_hop = p.expiry;
            let mut pinfo = info.clone();
            pinfo["src"] = json!(s);
            pinfo["dst"] = json!(d);
            pinfo["path_kind"] = json!(p.kind);
            // a) authentic at a valid time (skip when the path is already expired at max_ts)
            if (now_ok as u64) < expired_hop as u64 - 2 {
                compare(&topo, &t, s, d, &p.dp, s, 0, now_ok, "authentic", shortcutish, m, &pinfo);
                // b) clock
                compare(&topo, &t, s, d, &p.dp, s, 0, expired_hop.saturating_add(5), "clock-after-expiry", shortcutish, m, &pinfo);
                if expired_hop - 5 > max_ts {
                    compare(&topo, &t, s, d, &p.dp, s, 0, expired_hop - 5, "clock-before-expiry", shortcutish, m, &pinfo);
                }
            } else {
                compare(&topo, &t, s, d, &p.dp, s, 0, max_ts.max(expired_hop.saturating_add(3)), "authentic-but-expired", shortcutish, m, &pinfo);
                continue;
            }
            // c) each traversed link down (one at a time)
            for h in p.hops.iter().take(p.hops.len() - 1).take(3) {
                if let Some((li, _, _, _)) = t.iface(h.as_idx, h.eg_if) {
                    t.links[li].up = false;
                    if let Some(l) = topo.mut_scion_link(&ia(&t, h.as_idx), h.eg_if) {
                        l.set_is_up(false);
                    }
                    compare(&topo, &t, s, d, &p.dp, s, 0, now_ok, "link-down", shortcutish, m, &pinfo);
                    t.links[li].up = true;
                    if let Some(l) = topo.mut_scion_link(&ia(&t, h.as_idx), h.eg_if) {
                        l.set_is_up(true);
                    }
                }
            }
            // d) corruptions
            for _ in 0..(if thorough { 12 } else { 5 }) {
                let (cp, what) = flip(&p.dp, &mut r);
                if what != "noop" {
                    let mut ci = pinfo.clone();
                    ci["corrupted"] = json!(what);
                    compare(&topo, &t, s, d, &cp, s, 0, now_ok, "corrupt", shortcutish, m, &ci);
                }
            }
            // e) injection at every hop of the path (packet state as the reference leaves it)
            {
                let mut state = p.dp.clone();
                let mut at = s;
                let mut in_if = 0u16;
                for _ in 0..p.hops.len() {
                    match router::process(&t, at, in_if, &mut state, t.ases[d].ia(), now_ok) {
                        router::Outcome::Forward { next_as, next_if, .. } => {
                            at = next_as;
                            in_if = next_if;
                            compare(&topo, &t, s, d, &state, at, in_if, now_ok, "mid-path", shortcutish, m, &pinfo);
                        }
                        _ => break,
                    }
                }
                // wrong ingress point: a random other AS / interface
                let wa = r.usize(n);
                let wif = t.links_of(wa).first().map(|l| l.1).unwrap_or(0);
                compare(&topo, &t, s, d, &p.dp, wa, if r.bool() { wif } else { 0 }, now_ok, "wrong-ingress", shortcutish, m, &pinfo);
            }
            // f) splices with the next paths in the list
            for other in all_paths.iter().skip(idx + 1).take(if thorough { 4 } else { 2 }) {
                let a = segments(&p.dp);
                let bsegs = segments(&other.2.dp);
                let mut pool = a.clone();
                pool.extend(bsegs);
                // mid-segment splices: a prefix of one segment joined, at a common AS, to the
                // rest of another segment (SegID advanced so that the hop fields still verify)
                let owners: Vec<Vec<Option<usize>>> = pool.iter().map(|sg| hop_owners(&t, &sg.0, &sg.1)).collect();
                for x in 0..pool.len() {
                    if pool[x].0.flags & 2 != 0 {
                        continue;
                    }
                    for y in 0..pool.len() {
                        if x == y || pool[y].0.flags & 2 != 0 {
                            continue;
                        }
                        for jx in 1..=pool[x].1.len() {
                            for jy in 0..pool[y].1.len() {
                                if (jx == pool[x].1.len() && jy == 0) || owners[x][jx - 1].is_none() || owners[x][jx - 1] != owners[y][jy] {
                                    continue;
                                }
                                let head = (pool[x].0.clone(), pool[x].1[..jx].to_vec());
                                let tail = seg_suffix(&pool[y], jy);
                                if let Some(sp) = assemble(&[head, tail]) {
                                    let mx = sp.infos.iter().map(|q| q.timestamp).max().unwrap() + 1;
                                    compare(&topo, &t, s, other.1, &sp, s, 0, mx, "mid-splice", false, m, &pinfo);
                                }
                            }
                        }
                    }
                }
                // every ordered selection of 2 and some of 3 segments from the pool
                for x in 0..pool.len() {
                    for y in 0..pool.len() {
                        if x == y {
                            continue;
                        }
                        if let Some(sp) = assemble(&[pool[x].clone(), pool[y].clone()]) {
                            let mx = sp.infos.iter().map(|q| q.timestamp).max().unwrap() + 1;
                            compare(&topo, &t, s, other.1, &sp, s, 0, mx, "splice", false, m, &pinfo);
                        }
                        if thorough || r.chance(1, 4) {
                            for z in 0..pool.len() {
                                if z == x || z == y {
                                    continue;
                                }
                                if let Some(sp) = assemble(&[pool[x].clone(), pool[y].clone(), pool[z].clone()]) {
                                    let mx = sp.infos.iter().map(|q| q.timestamp).max().unwrap() + 1;
                                    compare(&topo, &t, s, other.1, &sp, s, 0, mx, "splice", false, m, &pinfo);
                                }
                            }
                        }
                    }
                }
            }
        }
        if i < 1 {
            m.sample(|| json!({"topology": topo_json(&t), "paths": all_paths.len()}));
        }
    });
    (
        format!("{n_topo} generated topologies; per topology up to 14 (quick) / 40 (thorough) AS pairs x up to 4/8 spec-authentic reference paths, each as: authentic, clock 5 s before/after the earliest hop expiry, each of the first 3 traversed links down, 5/12 single-bit corruptions (pointers, SegID, timestamp, MAC, interfaces, ExpTime), injection at every hop and at a wrong AS/interface, all ordered 2- (sampled 3-) segment splices with the next paths, and all mid-segment splices (a prefix of one segment joined at a common AS to the rest of another, SegID advanced so the hop fields verify). distinct = distinct (family, path class, simulator verdict, reference verdict) tuples."),
        vec![
            "reference border router in harness/refscion/src/router.rs (data-plane spec + published reference-router behaviour), evaluating all rules; a simulator error class must match one violated rule at the same AS; a drop counts as refusal",
            "packets whose hop fields are stamped in the future are not compared (the simulator refuses them, the reference router does not judge them)",
            "one-hop paths and router-alert (SCMP traceroute) flags are not part of this family",
        ],
    )
}
