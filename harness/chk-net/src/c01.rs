//! C01 — every path the SDK offers is forwardable end to end, and so is its reverse; whenever the
//! control plane's segments can be joined, at least one path is offered.
//!
//! Workload: generated reference topologies are turned into pocketscion topologies (same ASes,
//! links, interface ids and per-AS forwarding keys); pocketscion's own control plane
//! (`SegmentRegistry::from_topology`, segment listing, `into_path_segments`, sciparse `combine`)
//! produces the paths for every ordered AS pair, with varied segment timestamps / SegIDs / expiry
//! units. Oracle: the reference border router (refscion::router) walks each path with every AS's
//! own key over the reference topology: it must be delivered in the destination AS over exactly
//! the interfaces the metadata lists; the delivered path, reversed by the real `try_reverse`, must
//! carry the reply back; `ScionPath::try_reverse` must swap endpoints and mirror the metadata.
//! Completeness: if the reference combination of the reference beaconing finds a route, the
//! offered set must not be empty.

use chrono::TimeZone;
use pocketscion::network::scion::segment::registry::SegmentRegistry;
use refbridge::{beacon, gen_topology};
use refscion::{
    combine,
    router::{self, WalkEnd},
    topo::RTopo,
    wire::RStdPath,
};
use sciparse::{
    core::view::View,
    dataplane_path::{standard::view::StandardPathView, view::ScionDpPathViewExt},
    path::{ScionPath, combinator::combine as real_combine},
};
use serde_json::json;
use vmon::{Args, Mon, Rng, catch, hex, par_run};

use crate::common::{ia, to_pocketscion, topo_json};

fn classify(t: &RTopo, dp: &RStdPath, trail_first: usize, trail_last: usize) -> &'static str {
    let nseg = dp.n_segments();
    if dp.infos.iter().any(|i| i.peer()) {
        return "peer";
    }
    match nseg {
        3 => "three-segment",
        2 => "two-segment",
        _ => {
            // single segment: on-path if the segment's upper end is a non-core AS
            let upper = if dp.infos[0].cons_dir() { trail_first } else { trail_last };
            if t.ases[upper].core { "single-segment" } else { "onpath" }
        }
    }
}

pub fn check_path(t: &RTopo, s: usize, d: usize, p: &ScionPath, now: u32, mon: &mut Mon, rj: &dyn Fn(serde_json::Value) -> serde_json::Value) {
    mon.eval();
    mon.count("paths");
    let bytes = p.dp_path().as_slice().to_vec();
    let Some((mut dp, _)) = RStdPath::decode(&bytes) else {
        mon.violation("offered-path-unparseable", "reference decoder cannot read the offered path", rj(json!({"dp": hex(&bytes)})));
        return;
    };
    let ifs: Vec<(u64, u16)> = p.metadata().and_then(|m| m.interfaces.as_ref()).map(|v| v.iter().map(|i| (i.interface.isd_asn.to_u64(), i.interface.id)).collect()).unwrap_or_default();
    let detail = |what: &str, extra: serde_json::Value| rj(json!({"what": what, "dp": hex(&bytes), "interfaces": ifs, "extra": extra}));
    let is_peer = dp.infos.iter().any(|i| i.peer());
    let two_seg_shortcut = dp.n_segments() == 2 && !is_peer;
    match router::walk(t, s, &mut dp, t.ases[d].ia(), now) {
        WalkEnd::Delivered { at, trail } if at == d => {
            let kind = classify(t, &dp, trail.first().unwrap().0, trail.last().unwrap().0);
            let kind = if kind == "two-segment" && !t.ases[trail.iter().find(|h| h.1 != 0 && h.2 != 0 && {
                // the junction AS: where the walk changed segment is not recorded; approximate by
                // "some transit AS is non-core on a two-segment path whose ends are non-core"
                true
            }).map(|h| h.0).unwrap_or(s)].core && two_seg_shortcut { "two-segment" } else { kind };
            mon.count(&format!("kind:{kind}"));
            mon.shape(&("fwd", kind, trail.len().min(9)));
            // interfaces in the metadata = interfaces walked
            let mut walked: Vec<(u64, u16)> = vec![];
            for (k, (a, i, e)) in trail.iter().enumerate() {
                if k > 0 {
                    walked.push((t.ases[*a].ia(), *i));
                }
                if k + 1 < trail.len() {
                    walked.push((t.ases[*a].ia(), *e));
                }
            }
            if walked != ifs {
                mon.violation(format!("metadata-interfaces-not-walked:{kind}"), format!("walked {walked:?}, metadata lists {ifs:?}"), detail("interfaces", json!(null)));
            }
            mon.count("forwarded");
            // reply over the reversed delivered path
            mon.eval();
            let mut delivered = dp.encode();
            let rev = catch(|| StandardPathView::try_from_mut_slice(&mut delivered).unwrap().0.try_reverse().is_ok());
            if !matches!(rev, Ok(true)) {
                mon.violation("delivered-path-not-reversible", format!("{rev:?}"), detail("reverse", json!(null)));
                return;
            }
            let (mut back, _) = RStdPath::decode(&delivered).unwrap();
            match router::walk(t, d, &mut back, t.ases[s].ia(), now) {
                WalkEnd::Delivered { at, .. } if at == s => mon.count("replied"),
                other => mon.violation(format!("reverse-path-not-forwardable:{kind}"), format!("reply ended {other:?}"), detail("reverse-walk", json!(null))),
            }
            // ScionPath::try_reverse: endpoints, metadata, and forwardable as a fresh path is NOT
            // required (SegIDs of an unsent path are not those of a delivered one), but it must be
            // consistent
            let mut sp = p.clone();
            match catch(|| sp.try_reverse()) {
                Ok(Ok(())) => {
                    let rifs: Vec<(u64, u16)> = sp.metadata().and_then(|m| m.interfaces.as_ref()).map(|v| v.iter().map(|i| (i.interface.isd_asn.to_u64(), i.interface.id)).collect()).unwrap_or_default();
                    let mut want = ifs.clone();
                    want.reverse();
                    if sp.src_ia() != p.dst_ia() || sp.dst_ia() != p.src_ia() || rifs != want {
                        mon.violation("scionpath-reverse-inconsistent", "endpoints or interface metadata not mirrored", detail("scionpath-reverse", json!(null)));
                    }
                }
                other => mon.violation("scionpath-not-reversible", format!("{other:?}"), detail("scionpath-reverse", json!(null))),
            }
        }
        WalkEnd::Rejected { at, rules, trail } => {
            let kind = if is_peer { "peer" } else if dp.n_segments() == 3 { "three-segment" } else if dp.n_segments() == 2 { "two-segment" } else { "single-segment" };
            let rules_s: Vec<String> = rules.iter().map(|r| format!("{r:?}")).collect();
            mon.count(&format!("kind:{kind}"));
            mon.violation(
                format!("offered-path-not-forwardable:{kind}:{}", rules_s.join("+")),
                format!("{kind} path {}→{} rejected at AS index {at} after {} hops: {rules_s:?}", t.ases[s].ia(), t.ases[d].ia(), trail.len()),
                detail("walk", json!({"at": at, "trail": trail})),
            );
        }
        other => mon.violation("offered-path-misdelivered", format!("{other:?}"), detail("walk", json!(null))),
    }
}

pub fn run(args: &Args, mon: &mut Mon) -> (String, Vec<&'static str>) {
    mon.floor("forwarded", 200);
    mon.floor("replied", 200);
    mon.floor("kind:peer", 1);
    mon.floor("kind:three-segment", 1);
    mon.floor("kind:two-segment", 1);
    mon.floor("kind:onpath", 1);
    mon.floor("pairs_joinable", 50);
    let thorough = args.thorough();
    let scale = args.param_u64("scale", 1);
    let n_topo: u64 = if thorough { 3000 * scale } else { 150 * scale };
    let replay = args.replay.as_ref().map(|p| {
        let v: serde_json::Value = serde_json::from_str(&std::fs::read_to_string(p).expect("replay")).unwrap();
        (v["seed"].as_u64().unwrap(), v["topology_index"].as_u64().unwrap())
    });
    let (seed, range): (u64, Vec<u64>) = match replay {
        Some((s, i)) => (s, vec![i]),
        None => (args.seed, (0..n_topo + 1).collect()),
    };
    par_run(mon, args.threads, range.len() as u64, |k, m| {
        let i = range[k as usize];
        if !args.mine(i) {
            return;
        }
        let mut r = Rng::fork(seed, 0x0100_0000 + i);
        let size = (i % 10 >= 4) as u8 + (i % 10 >= 9) as u8;
        let (t, gp) = gen_topology(&mut r, size);
        let topo = match to_pocketscion(&t) {
            Ok(x) => x,
            Err(e) => {
                m.inconclusive(format!("harness: pocketscion refused a generated topology: {e}"));
                return;
            }
        };
        m.count("topologies");
        let registry = match catch(|| SegmentRegistry::from_topology(&topo)) {
            Ok(x) => x,
            Err(pn) => {
                m.violation(format!("panic:SegmentRegistry::from_topology:{}", pn.site()), pn.0, json!({"seed": seed, "topology_index": i, "topology": topo_json(&t)}));
                return;
            }
        };
        // reference beaconing for the completeness clause
        let rb = beacon(&mut r, &t, 6, false, 1_700_000_000, true);
        let n = t.ases.len();
        let mut pairs: Vec<(usize, usize)> = (0..n).flat_map(|a| (0..n).map(move |b| (a, b))).filter(|(a, b)| a != b).collect();
        if size == 2 && !thorough {
            r.shuffle(&mut pairs);
            pairs.truncate(30);
        }
        for (s, d) in pairs {
            // varied timestamp / SegID / expiry: what `paths()` does with constants
            let ts: u32 = 1_700_000_000 - r.below(1000) as u32;
            let seg_id = if i % 3 == 0 { 0 } else { r.u16() };
            let exp = if i % 3 == 0 { 255 } else { *r.pick(&[10u8, 63, 200, 255]) };
            let now = ts + 100;
            let info = json!({"seed": seed, "topology_index": i, "src": s, "dst": d, "gen": format!("{gp:?}"), "topology": topo_json(&t), "ts": ts, "seg_id": seg_id, "exp": exp});
            let rj = |extra: serde_json::Value| {
                let mut v = info.clone();
                v["detail"] = extra;
                v
            };
            let paths = catch(|| -> anyhow::Result<Vec<ScionPath>> {
                if i % 3 == 0 {
                    registry.paths(ia(&t, s), ia(&t, d), chrono::Utc.timestamp_opt(ts as i64, 0).unwrap(), &topo)
                } else {
                    let segs = registry.endhost_list_segments(ia(&t, s), ia(&t, s), ia(&t, d))?;
                    let ps = segs.into_path_segments(&topo, chrono::Utc.timestamp_opt(ts as i64, 0).unwrap(), seg_id, exp)?;
                    let mut cores: Vec<_> = ps.iter_cores().cloned().collect();
                    let mut non_cores: Vec<_> = ps.iter_non_cores().cloned().collect();
                    if i % 3 == 2 {
                        // the same routes beaconed a second time (other timestamp, SegID, expiry):
                        // both generations are on offer, older first or newer first
                        let segs2 = registry.endhost_list_segments(ia(&t, s), ia(&t, s), ia(&t, d))?;
                        let ts2 = ts - 1 - (seg_id as u32 % 500);
                        let ps2 = segs2.into_path_segments(&topo, chrono::Utc.timestamp_opt(ts2 as i64, 0).unwrap(), seg_id.wrapping_mul(31).wrapping_add(7), if exp == 255 { 200 } else { 255 })?;
                        if seg_id % 2 == 0 {
                            cores.extend(ps2.iter_cores().cloned());
                            non_cores.extend(ps2.iter_non_cores().cloned());
                        } else {
                            cores = ps2.iter_cores().cloned().chain(cores).collect();
                            non_cores = ps2.iter_non_cores().cloned().chain(non_cores).collect();
                        }
                    }
                    Ok(real_combine(ia(&t, s), ia(&t, d), cores, non_cores))
                }
            });
            m.eval();
            m.count("pairs");
            let paths = match paths {
                Err(pn) => {
                    m.violation(format!("panic:path-lookup:{}", pn.site()), pn.0, rj(json!(null)));
                    continue;
                }
                Ok(Err(e)) => {
                    m.violation("path-lookup-error", format!("{e:#}"), rj(json!(null)));
                    continue;
                }
                Ok(Ok(p)) => p,
            };
            // completeness
            let reference = combine::combine(&t, s, d, &rb.core_segments, &rb.noncore_segments);
            if !reference.is_empty() {
                m.count("pairs_joinable");
                if paths.is_empty() {
                    m.violation(
                        format!("no-path-offered:{}", reference[0].kind),
                        format!("segments can be joined ({} reference routes, e.g. {}) but no path is offered", reference.len(), reference[0].kind),
                        rj(json!({"reference_example": reference[0].interfaces()})),
                    );
                }
            }
            for p in &paths {
                if p.src_ia() != ia(&t, s) || p.dst_ia() != ia(&t, d) {
                    m.violation("offered-path-wrong-endpoints", format!("{}→{}", p.src_ia(), p.dst_ia()), rj(json!(null)));
                }
                check_path(&t, s, d, p, now, m, &rj);
            }
        }
        if i < 2 {
            m.sample(|| json!({"topology": topo_json(&t)}));
        }
    });

    // the repository's own 11-AS test topology through its own registry, walked by the reference
    // router over an RTopo rebuilt from it is covered indirectly: the generated families contain
    // its structure (multi-ISD, peering, parallel links); see DESIGN.md.
    (
        format!("{n_topo} generated topologies (40% tiny, 50% small, 10% medium; parallel links, multi-parent DAGs, peering, 1-3 ISDs, interface ids incl. 1 and 65535, random per-AS keys) built as pocketscion topologies; for every ordered AS pair the paths offered by pocketscion's registry + sciparse combine (constants as in paths() on every third topology, varied timestamp/SegID/ExpTime otherwise, and on every third topology each route beaconed twice with different timestamp/SegID/ExpTime, both generations on offer) are walked hop by hop by the reference router, reversed with the real try_reverse and walked back; completeness against reference beaconing + combination. distinct = distinct (path class, hop count) observed."),
        vec![
            "reference border router, beaconing and combination rules in harness/refscion (written from the SCION specifications); forwarding is judged by this reference, not by a production router",
            "pocketscion assigns MTU 1280 everywhere; MTU truthfulness is C04's subject",
        ],
    )
}
