//! Checks that need the pocketscion simulator (topologies, segment registry, routing logic).
use vmon::{Args, Mon};

mod c01;
mod c13;
mod c17;
mod common;

#[global_allocator]
static A: vmon::alloc::Counting = vmon::alloc::Counting;

fn main() {
    let args = Args::parse();
    let mut mon = Mon::new();
    let (rule, assumptions): (String, Vec<&'static str>) = match args.prop.as_str() {
        "C01" => c01::run(&args, &mut mon),
        "C13" => c13::run(&args, &mut mon),
        "C17" => c17::run(&args, &mut mon),
        other => panic!("chk-net does not implement {other}"),
    };
    let code = mon.finish(&args, &rule, &assumptions);
    std::process::exit(code);
}
