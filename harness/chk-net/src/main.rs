//! Checks that need the pocketscion simulator (topologies, segment registry, routing logic).
use vmon::{Args, Mon};

fn main() {
    let args = Args::parse();
    let mon = Mon::new();
    let (rule, assumptions): (String, Vec<&'static str>) = match args.prop.as_str() {
        other => panic!("chk-net does not implement {other}"),
    };
    #[allow(unreachable_code)]
    {
        let code = mon.finish(&args, &rule, &assumptions);
        std::process::exit(code);
    }
}
