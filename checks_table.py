"""Which engines decide which property. Read by ./check and by tools/gen_manifest.py."""

NATIVE_REL = {"kind": "native", "profile": "release"}
NATIVE_CHK = {"kind": "native", "profile": "relcheck"}


def eng(name, bin, base, **kw):
    d = dict(base)
    d.update(name=name, bin=bin)
    d.update(kw)
    return d


# Miri runs the `release` profile (debug assertions OFF) so that undefined behaviour is reached and
# reported by Miri itself instead of being pre-empted by the crate's debug_assert! preconditions
# (those are the native-debugassert engine's job).
MIRI = {"kind": "miri", "miriflags": "", "miri_profile": "release", "tiers": ["quick", "thorough"]}
ASAN = {"kind": "asan"}


def codec_engines(miri_shards_quick=16, miri_shards_thorough=16, asan_tiers=("quick", "thorough"), miri_tiers=("quick", "thorough")):
    return [
        eng("native-release", "chk-codec", NATIVE_REL, params={"all": {"scale": 8}}),
        eng("native-debugassert", "chk-codec", NATIVE_CHK, params={"all": {"scale": 4}}),
        eng("asan", "chk-codec", ASAN, tiers=list(asan_tiers), floor_scale=1.0),
        eng("miri", "chk-codec", MIRI, tiers=list(miri_tiers), shards={"quick": miri_shards_quick, "thorough": miri_shards_thorough},
            floor_scale=0.0, timeout={"quick": 1500, "thorough": 3600}),
    ]


CHECKS = {
    "C02": {
        "engines": codec_engines() + [eng("valgrind", "chk-codec", {"kind": "valgrind"}, tiers=["thorough"], threads=4, floor_scale=0.0, params={"thorough": {"triple_stride": 512}}, timeout=3600)],
        "exhaustive": {"quick": False, "thorough": True},
        "trusted_base": ["Miri / ASan / valgrind as UB oracles", "reference packet builder in harness/refscion"],
    },
    "C03": {
        "engines": codec_engines(),
        "exhaustive": {"quick": False, "thorough": False},
        "trusted_base": ["reference header/UDP/SCMP encoder and RFC1071 checksum in harness/refscion/src/wire.rs"],
    },
    "C04": {
        "engines": codec_engines(miri_shards_quick=4, miri_shards_thorough=8),
        "exhaustive": {"quick": False, "thorough": False},
        "trusted_base": ["reference topology generator, beaconing, combination rules and border router in harness/refscion/src/{topo,combine,router}.rs"],
    },
    "C11": {
        "engines": codec_engines(),
        "exhaustive": {"quick": True, "thorough": True},
        "trusted_base": ["reference MAC chain in harness/refscion/src/mac.rs", "AES-CMAC (RustCrypto)"],
    },
    "C12": {
        "engines": codec_engines(),
        "exhaustive": {"quick": True, "thorough": True},
        "trusted_base": ["reference wire codec / reversal / expiry in harness/refscion"],
    },
    "C15": {
        "engines": [
            eng("native-release", "chk-codec", NATIVE_REL, params={"all": {"scale": 8}}),
            eng("native-debugassert", "chk-codec", NATIVE_CHK, params={"all": {"scale": 4}}),
            eng("txt-native-release", "chk-stack", NATIVE_REL, params={"all": {"scale": 2}}, floor_scale=0.0),
            eng("txt-native-debugassert", "chk-stack", NATIVE_CHK, params={"all": {"scale": 1}}, floor_scale=0.0),
        ],
        "exhaustive": {"quick": False, "thorough": False},
        "trusted_base": ["reference text grammars in harness/chk-codec/src/c15.rs", "std IP/integer parsers"],
    },
    "C16": {
        "engines": [
            eng("native-release", "chk-codec", NATIVE_REL, params={"all": {"scale": 4}}),
            eng("native-debugassert", "chk-codec", NATIVE_CHK, params={"all": {"scale": 1}}, tiers=["thorough"]),
            eng("miri", "chk-codec", MIRI, shards={"quick": 4, "thorough": 8}, floor_scale=0.0, tiers=["thorough"], timeout={"quick": 1500, "thorough": 3600}),
        ],
        "exhaustive": {"quick": True, "thorough": True},
        "trusted_base": ["first-match ACL evaluator, Brzozowski-derivative matcher and grammar recogniser in harness/chk-codec/src/c16.rs"],
    },
    "C18": {
        "engines": [
            eng("native-release", "chk-codec", NATIVE_REL, params={"all": {"scale": 4}}),
            eng("native-debugassert", "chk-codec", NATIVE_CHK, params={"all": {"scale": 1}}),
            eng("miri", "chk-codec", MIRI, shards={"quick": 2, "thorough": 4}, floor_scale=0.0, tiers=["thorough"], timeout={"quick": 1500, "thorough": 3600}),
        ],
        "exhaustive": {"quick": False, "thorough": False},
        "trusted_base": ["provenance oracle in harness/chk-codec/src/c18.rs", "ECDSA P-256 (RustCrypto)", "prost protobuf codec"],
    },
    "C19": {
        "engines": codec_engines(miri_shards_quick=2, miri_shards_thorough=4),
        "exhaustive": {"quick": False, "thorough": False},
        "trusted_base": ["reference wire decoder and border router in harness/refscion", "step bound 400*n^4 Entry::get calls"],
    },
    "C01": {
        "engines": [
            eng("native-release", "chk-net", NATIVE_REL, params={"all": {"scale": 2}}),
            eng("native-debugassert", "chk-net", NATIVE_CHK, params={"all": {"scale": 1}}, tiers=["thorough"]),
        ],
        "exhaustive": {"quick": False, "thorough": False},
        "trusted_base": ["reference border router, beaconing and combination rules in harness/refscion"],
    },
    "C13": {
        "engines": [
            eng("native-release", "chk-net", NATIVE_REL, params={"all": {"scale": 4}}),
            eng("native-debugassert", "chk-net", NATIVE_CHK, params={"all": {"scale": 1}}, tiers=["thorough"]),
        ],
        "exhaustive": {"quick": False, "thorough": False},
        "trusted_base": ["reference border router in harness/refscion/src/router.rs"],
    },
    "C17": {
        "engines": [
            eng("native-release", "chk-net", NATIVE_REL, params={"all": {"scale": 2}}),
            eng("native-debugassert", "chk-net", NATIVE_CHK, params={"all": {"scale": 1}}),
        ],
        "exhaustive": {"quick": False, "thorough": False},
        "trusted_base": ["provenance model over tagged bytes in harness/chk-net/src/c17.rs", "counting global allocator (vmon::alloc)"],
    },
    "C10": {
        "engines": [
            eng("native-release", "chk-snap", NATIVE_REL, params={"all": {"scale": 3}}),
            eng("native-debugassert", "chk-snap", NATIVE_CHK, params={"all": {"scale": 1}}),
        ],
        "exhaustive": {"quick": False, "thorough": False},
        "trusted_base": ["reference token decision procedure in harness/chk-snap/src/c10.rs", "ed25519-dalek", "serde_json"],
    },
    "C08": {
        "engines": [
            eng("native-release", "chk-snap", NATIVE_REL, params={"all": {"scale": 4}}),
            eng("native-debugassert", "chk-snap", NATIVE_CHK, params={"all": {"scale": 1}}),
            eng("asan", "chk-snap", ASAN, tiers=["quick", "thorough"], floor_scale=1.0),
        ],
        "exhaustive": {"quick": False, "thorough": False},
        "trusted_base": ["positional header predicate in harness/chk-snap/src/c08.rs", "reference decoder/checksum in harness/refscion/src/wire.rs", "AddressSanitizer for the unchecked view accessors"],
    },
    "C09": {
        "engines": [
            eng("native-release", "chk-snap", NATIVE_REL, params={"all": {"scale": 2}}),
            eng("native-debugassert", "chk-snap", NATIVE_CHK, params={"all": {"scale": 1}}, tiers=["thorough"]),
        ],
        "exhaustive": {"quick": True, "thorough": True},
        "trusted_base": ["reference model of the authorisation database in harness/chk-snap/src/c09.rs", "ana-gotatun WireGuard clients"],
    },
    "C05": {
        "engines": [
            eng("native-release", "chk-stack", NATIVE_REL, params={"all": {"scale": 3}}),
            eng("native-debugassert", "chk-stack", NATIVE_CHK, params={"all": {"scale": 1}}),
        ],
        "exhaustive": {"quick": False, "thorough": False},
        "trusted_base": ["the monitor's own policy evaluation over path metadata (harness/chk-stack/src/world.rs)", "task emulation under ideal scheduling"],
    },
    "C06": {
        "engines": [
            eng("native-release", "chk-stack", NATIVE_REL, params={"all": {"scale": 3}}),
            eng("native-debugassert", "chk-stack", NATIVE_CHK, params={"all": {"scale": 1}}),
        ],
        "exhaustive": {"quick": False, "thorough": False},
        "trusted_base": ["virtual clock and task emulation in harness/chk-stack/src/world.rs"],
    },
    "C07": {
        "engines": [
            eng("native-release", "chk-stack", NATIVE_REL, params={"all": {"scale": 3}}),
            eng("native-debugassert", "chk-stack", NATIVE_CHK, params={"all": {"scale": 1}}),
        ],
        "exhaustive": {"quick": False, "thorough": False},
        "trusted_base": ["the monitor's interface-use predicate over path metadata", "task emulation under ideal scheduling"],
    },
    "C14": {
        "engines": [
            eng("native-release", "chk-stack", NATIVE_REL, params={"all": {"scale": 3}}),
            eng("native-debugassert", "chk-stack", NATIVE_CHK, params={"all": {"scale": 1}}),
        ],
        "exhaustive": {"quick": False, "thorough": False},
        "trusted_base": ["reference decoder, checksum, path reversal and SCMP layout table in harness/refscion/src/wire.rs"],
    },
    "C20": {
        "engines": [
            eng("native-release", "chk-stack", NATIVE_REL, params={"all": {"scale": 2}}),
            eng("native-debugassert", "chk-stack", NATIVE_CHK, params={"all": {"scale": 1}}),
            eng("tsan", "chk-stack", {"kind": "tsan"}, tiers=["thorough"], params={"thorough": {"runs": 8000}}, floor_scale=0.1, timeout=5400),
        ],
        "exhaustive": {"quick": False, "thorough": False},
        "trusted_base": ["tokio's scheduler as the source of interleavings", "ThreadSanitizer (thorough tier) for data races in the exercised code"],
    },
}

LEVEL = {p: "exploration" for p in CHECKS}
