"""Which engines decide which property. Read by ./check and by tools/gen_manifest.py."""

NATIVE_REL = {"kind": "native", "profile": "release"}
NATIVE_CHK = {"kind": "native", "profile": "relcheck"}


def eng(name, bin, base, **kw):
    d = dict(base)
    d.update(name=name, bin=bin)
    d.update(kw)
    return d


CHECKS = {
    "C15": {
        "engines": [
            eng("native-release", "chk-codec", NATIVE_REL),
            eng("native-debugassert", "chk-codec", NATIVE_CHK),
        ],
        "exhaustive": {"quick": False, "thorough": False},
        "trusted_base": ["reference text grammars in harness/chk-codec/src/c15.rs", "std IP/integer parsers"],
    },
}

LEVEL = {p: "exploration" for p in CHECKS}
